"""Shared runner for layer `mig` (C09, C10, C11): K-mig.

For every history (corpus/mig/<name>/ = a vespertide project: vespertide.json, migrations/, models/) the
template crate harness_mig/template is instantiated, so that the REAL `vespertide::vespertide_migration!`
macro is expanded by rustc against that project (binaries cached under .cache/mig/bin keyed by the content
hash of history + /repo/crates sources + harness sources).  The binary runs the generated code over real
SQLite files through the logging / fault-injecting / schedulable proxy connection of harness_mig/migrt.
Every run becomes a `mig_case` term; coq/mig/Corr/Corr.v recomputes all observables with the model inside
Coq (`Eval vm_compute in bad.`).  The oracles O-C09 / O-C10 / O-C11 below look only at what the
implementation did."""
import fcntl, glob, hashlib, json, os, random, re, shutil, time
import vflib
from vflib import ROOT, CACHE

MIG = os.path.join(CACHE, "mig")
CORPUS = os.path.join(ROOT, "corpus", "mig")
HARNESS = os.path.join(ROOT, "harness_mig")
VARIANTS = {0: "", 1: "verbose", 2: "version_table", 3: "version_table+verbose"}
_memo = {}


class MigLock:
    """K-mig shares one build directory and one cache: concurrent check invocations take turns."""

    def __enter__(self):
        os.makedirs(MIG, exist_ok=True)
        self.f = open(os.path.join(MIG, "lock"), "w")
        fcntl.flock(self.f, fcntl.LOCK_EX)
        return self

    def __exit__(self, *a):
        fcntl.flock(self.f, fcntl.LOCK_UN)
        self.f.close()


# ------------------------------------------------------------------------------------------ hashing / building
def tree_hash(paths, skip=("/target/", "/.git/")):
    h = hashlib.sha1()
    for base in paths:
        files = [base] if os.path.isfile(base) else sorted(glob.glob(os.path.join(base, "**", "*"), recursive=True))
        for f in files:
            if os.path.isfile(f) and not any(s in f for s in skip):
                h.update(os.path.relpath(f, base).encode() if f != base else os.path.basename(f).encode())
                h.update(b"\0")
                h.update(open(f, "rb").read())
    return h.hexdigest()[:16]


def repo_key():
    if "repo" not in _memo:
        paths = sorted(glob.glob("/repo/crates/*/src")) + sorted(glob.glob("/repo/crates/*/Cargo.toml")) + ["/repo/Cargo.toml", "/repo/Cargo.lock"]
        _memo["repo"] = tree_hash(paths)
    return _memo["repo"]


def harness_key():
    if "harness" not in _memo:
        _memo["harness"] = tree_hash([os.path.join(HARNESS, "migrt", "src"), os.path.join(HARNESS, "migrt", "Cargo.toml"),
                                      os.path.join(HARNESS, "template")])
    return _memo["harness"]


def project_files(hdir):
    return [os.path.join(hdir, "vespertide.json"), os.path.join(hdir, "migrations"), os.path.join(hdir, "models")]


def build_case(hdir):
    """-> (binary path or None, log, seconds, cached?)"""
    key = hashlib.sha1((repo_key() + harness_key() + tree_hash(project_files(hdir))).encode()).hexdigest()[:20]
    bdir = os.path.join(MIG, "bin", key)
    binp = os.path.join(bdir, "migcase")
    if os.path.exists(binp):
        os.utime(bdir, None)
        return binp, "", 0.0, True, key
    t0 = time.time()
    bd = os.path.join(MIG, "build", "case")
    os.makedirs(os.path.join(bd, "src"), exist_ok=True)
    os.makedirs(os.path.join(bd, ".cargo"), exist_ok=True)
    for x in ("migrations", "models"):
        shutil.rmtree(os.path.join(bd, x), ignore_errors=True)
        if os.path.isdir(os.path.join(hdir, x)):
            shutil.copytree(os.path.join(hdir, x), os.path.join(bd, x))
    if os.path.exists(os.path.join(hdir, "vespertide.json")):
        shutil.copy(os.path.join(hdir, "vespertide.json"), os.path.join(bd, "vespertide.json"))
    elif os.path.exists(os.path.join(bd, "vespertide.json")):
        os.remove(os.path.join(bd, "vespertide.json"))
    toml = open(os.path.join(HARNESS, "template", "Cargo.toml.in")).read()
    toml = toml.replace("@VESPERTIDE@", os.environ.get("VERIF_MIG_VESPERTIDE", "/repo/crates/vespertide")).replace("@MIGRT@", os.path.join(HARNESS, "migrt"))
    open(os.path.join(bd, "Cargo.toml"), "w").write(toml)
    open(os.path.join(bd, "src", "main.rs"), "w").write(open(os.path.join(HARNESS, "template", "main.rs.in")).read().replace("@CASE_HASH@", key))
    open(os.path.join(bd, ".cargo", "config.toml"), "w").write("[net]\noffline = true\n")
    if not os.path.exists(os.path.join(bd, "Cargo.lock")):
        shutil.copy(os.path.join(HARNESS, "Cargo.lock") if os.path.exists(os.path.join(HARNESS, "Cargo.lock")) else "/repo/Cargo.lock",
                    os.path.join(bd, "Cargo.lock"))
    rc, out, dt = vflib.sh(["cargo", "build", "--offline"], cwd=bd, timeout=1800)
    if rc != 0:
        return None, out[-4000:], time.time() - t0, False, key
    os.makedirs(bdir, exist_ok=True)
    shutil.copy(os.path.join(vflib.TARGET, "debug", "migcase"), binp)
    return binp, "", time.time() - t0, False, key


def run_bin(binp, spec, tag):
    """run the case binary on a spec; -> output dict or None (process died)"""
    d = os.path.join(spec["work"], "_io")
    os.makedirs(d, exist_ok=True)
    sp, op = os.path.join(d, tag + ".spec.json"), os.path.join(d, tag + ".out.json")
    if os.path.exists(op):
        os.remove(op)
    json.dump(spec, open(sp, "w"))
    rc, out, dt = vflib.sh([binp, sp, op], timeout=1200)
    if not os.path.exists(op):
        return None, rc, out[-2000:]
    return json.load(open(op)), rc, ""


# ------------------------------------------------------------------------------------------ histories
def read_history(hdir):
    migs = []
    for f in sorted(glob.glob(os.path.join(hdir, "migrations", "*.json"))):
        migs.append(json.load(open(f)))
    migs.sort(key=lambda m: m["version"])
    cfg = json.load(open(os.path.join(hdir, "vespertide.json"))) if os.path.exists(os.path.join(hdir, "vespertide.json")) else {}
    return {"name": os.path.basename(hdir), "dir": hdir, "migrations": migs, "config": cfg,
            "versions": [m["version"] for m in migs], "ids": [m.get("id", "") for m in migs]}


def gen_history(rng, hdir, idx):
    """A small valid evolution built from safe building blocks (every statement executes on SQLite)."""
    tables, mig_list, version = {}, [], 0
    n_migs = rng.choice([2, 3, 3, 4])
    uid = lambda v: "" if rng.random() < 0.15 else "0190%04x-0000-7000-8000-%012x" % (idx, v)
    tcount = [0]

    def new_table():
        t = "t%d_%d" % (idx, tcount[0])
        tcount[0] += 1
        cols = ["id"] + ["c%d" % i for i in range(rng.randint(1, 3))]
        tables[t] = {"cols": list(cols), "ix": set(), "n": len(cols), "born": version_box[0]}
        return {"type": "create_table", "table": t, "constraints": [],
                "columns": [{"name": "id", "type": "integer", "nullable": False, "primary_key": True}] +
                           [{"name": c, "type": rng.choice(["text", "integer", {"kind": "varchar", "length": 40}]), "nullable": True} for c in cols[1:]]}
    rawtables = []
    version_box = [0]

    def add_col(t):
        info = tables[t]
        c = "c%d" % info["n"]
        info["n"] += 1
        info["cols"].append(c)
        return {"type": "add_column", "table": t, "fill_with": None,
                "column": {"name": c, "type": rng.choice(["text", "integer", "boolean"]), "nullable": True}}
    for _ in range(n_migs):
        version += rng.choice([1, 1, 1, 2, 5])
        version_box[0] = version
        acts = []
        if tables and rng.random() < 0.25:
            # a migration that issues no statement on SQLite: no action at all, or column comments only
            t = rng.choice(sorted(tables))
            if rng.random() < 0.5:
                acts = [{"type": "modify_column_comment", "table": t, "column": tables[t]["cols"][-1], "new_comment": "generated comment %d" % version}]
            mig_list.append({"version": version, "id": uid(version), "comment": "generated (no SQLite statement)", "actions": acts})
            continue
        for _ in range(rng.randint(1, 3)):
            choice = rng.random()
            if not tables or choice < 0.22:
                acts.append(new_table())
                continue
            t = rng.choice(sorted(tables))
            info = tables[t]
            if choice < 0.30:
                # a table the in-memory schema never hears of (apply_action ignores raw_sql)
                rt = "raw%d_%d" % (idx, len(rawtables) + tcount[0] * 10)
                rawtables.append(rt)
                shapes = ["CREATE TABLE %s (x INTEGER)", "-- created by hand\nCREATE TABLE %s (\n\tx INTEGER\n)",
                          "/* legacy\n   table */\nCREATE TABLE %s (x INTEGER DEFAULT 7, -- the value\n  y TEXT DEFAULT 'a\nb')", "\n\n  CREATE TABLE %s\n\t(x INTEGER)\n"]
                acts.append({"type": "raw_sql", "sql": rng.choice(shapes) % rt})
            elif choice < 0.42 and rawtables:
                # a modelled action on it: valid SQL, rejected by apply_action (error ignored by the macro, lib.rs:73-76);
                # never last in its migration: a schema change on a tracked table follows
                rt = rng.choice(rawtables)
                if rng.random() < 0.5:
                    acts.append({"type": "add_column", "table": rt, "fill_with": None,
                                 "column": {"name": "y%d" % version, "type": "integer", "nullable": True}})
                else:
                    rawtables.remove(rt)
                    acts.append({"type": "delete_table", "table": rt})
                acts.append(add_col(t))
            elif choice < 0.52 and not info.get("view") and len(info["cols"]) > 1 and info["born"] < version:
                # SQLite rebuild: its SQL is generated from the baseline threaded through ALL earlier actions
                free = [c for c in info["cols"][1:] if c not in info["ix"]]
                if free:
                    acts.append({"type": "modify_column_type", "table": t, "column": rng.choice(free), "new_type": {"kind": "varchar", "length": 100}})
                else:
                    acts.append(add_col(t))
            elif choice < 0.66:
                acts.append(add_col(t))
            elif choice < 0.80:
                free = [c for c in info["cols"][1:] if c not in info["ix"]]
                if not free:
                    acts.append(new_table())
                    continue
                c = rng.choice(free)
                info["ix"].add(c)
                acts.append({"type": "add_constraint", "table": t,
                             "constraint": {"type": rng.choice(["index", "unique"]), "columns": [c]}})
            elif choice < 0.9:
                info["view"] = True
                vshape = rng.choice(["CREATE VIEW v%d_%d AS SELECT id FROM %s%s", "CREATE VIEW v%d_%d AS\n  SELECT id, -- key\n    'two\nlines' AS txt\n  FROM %s%s"])
                acts.append({"type": "raw_sql", "sql": vshape % (idx, version * 10 + len(acts), "", t)})
            else:
                free = [c for c in info["cols"][1:] if c not in info["ix"]]
                if not free:
                    acts.append(new_table())
                    continue
                c = rng.choice(free)
                nc = c + "r"
                info["cols"][info["cols"].index(c)] = nc
                acts.append({"type": "rename_column", "table": t, "from": c, "to": nc})
        mig_list.append({"version": version, "id": uid(version), "comment": "generated", "actions": acts})
    # views reference unprefixed table names: generated histories carry no prefix
    shutil.rmtree(hdir, ignore_errors=True)
    os.makedirs(os.path.join(hdir, "migrations"))
    os.makedirs(os.path.join(hdir, "models"))
    json.dump({"modelsDir": "models", "migrationsDir": "migrations", "tableNamingCase": "snake", "columnNamingCase": "snake",
               "modelFormat": "json"}, open(os.path.join(hdir, "vespertide.json"), "w"))
    for m in mig_list:
        json.dump(m, open(os.path.join(hdir, "migrations", "%04d_gen.json" % m["version"]), "w"), indent=1)


def gen_script_history(rng, hdir, idx, bare):
    """plain migrations interleaved with raw_sql scripts that carry their own transaction control"""
    wrappers = [("BEGIN; %s; COMMIT;", False), ("BEGIN; %s; END;", False), ("BEGIN TRANSACTION;\n%s;\nEND TRANSACTION;", False),
                ("begin immediate; %s; commit", False), ("SAVEPOINT s%d; %%s; RELEASE s%d" % (idx, idx), False)]
    enders = [("%s; COMMIT;", True), ("%s; END", True), ("%s; end transaction;", True)]
    migs, version, tcount = [], 0, 0
    t0 = "s%d_base" % idx
    plan = ["plain"] + [rng.choice(["plain", "script", "script"]) for _ in range(rng.randint(2, 4))]
    if "script" not in plan:
        plan[-1] = "script"
    cols = 0
    for step in plan:
        version += rng.choice([1, 1, 2])
        if step == "plain":
            if not migs:
                acts = [{"type": "create_table", "table": t0, "constraints": [],
                         "columns": [{"name": "id", "type": "integer", "nullable": False, "primary_key": True}]}]
            else:
                cols += 1
                acts = [{"type": "add_column", "table": t0, "fill_with": None, "column": {"name": "c%d" % cols, "type": "text", "nullable": True}}]
        else:
            tcount += 1
            body = "CREATE TABLE s%d_t%d (x INTEGER)" % (idx, tcount)
            if rng.random() < 0.4:
                body += "; INSERT INTO s%d_t%d VALUES (%d)" % (idx, tcount, version)
            tmpl, _ = rng.choice(enders if (bare and rng.random() < 0.6) else wrappers)
            acts = [{"type": "raw_sql", "sql": tmpl % body}]
        migs.append({"version": version, "id": "0193%04x-0000-7000-8000-%012x" % (idx, version), "comment": "generated " + step, "actions": acts})
    shutil.rmtree(hdir, ignore_errors=True)
    os.makedirs(os.path.join(hdir, "migrations"))
    os.makedirs(os.path.join(hdir, "models"))
    json.dump({"modelsDir": "models", "migrationsDir": "migrations", "tableNamingCase": "snake", "columnNamingCase": "snake",
               "modelFormat": "json"}, open(os.path.join(hdir, "vespertide.json"), "w"))
    for m in migs:
        json.dump(m, open(os.path.join(hdir, "migrations", "%04d_gen.json" % m["version"]), "w"), indent=1)


def history_dirs(tier, seed):
    dirs = sorted(d for d in glob.glob(os.path.join(CORPUS, "*")) if os.path.isdir(os.path.join(d, "migrations")))
    if tier == "thorough":
        rng = random.Random(seed * 7919 + 13)
        gd = os.path.join(MIG, "gen", str(seed))
        for i in range(8):
            hd = os.path.join(gd, "g%02d" % i)
            gen_history(rng, hd, i)
            dirs.append(hd)
        for i in range(3):
            hd = os.path.join(gd, "gs%02d" % i)
            gen_script_history(rng, hd, 20 + i, bare=(i == 2))
            dirs.append(hd)
    return dirs


# ------------------------------------------------------------------------------------------ run plans
def seq_run(name, variant, init, faults=((), ()), backend="sqlite", **tags):
    return {"name": name, "variant": variant, "backend": backend, "init": init, "mode": "sequential",
            "instances": [{"faults": list(f)} for f in faults], "schedule": [], "tags": tags}


def base_runs(h, tier):
    n, vs, ids = len(h["versions"]), h["versions"], h["ids"]
    runs = []
    for v in VARIANTS:
        for k in range(n + 1):
            runs.append(seq_run("b_v%d_k%d" % (v, k), v, {"k": k, "vt": "absent" if k == 0 else "current"},
                                family="c09", kind="base", k=k, ncalls_key="%d:%d" % (v, k)))
        legacy_ks = range(1, n + 1) if tier == "thorough" or v == 0 else ([n] if v == 3 else [])
        for k in legacy_ks:
            runs.append(seq_run("l_v%d_k%d" % (v, k), v, {"k": k, "vt": "legacy"}, family="c09", kind="legacy", k=k))
    runs.append(seq_run("e_v0_k0", 0, {"k": 0, "vt": "current"}, family="c09", kind="base", k=0))
    for be in ("postgres", "mysql"):
        for v in (0, 1):
            for k in sorted({0, max(n - 1, 0)}):
                runs.append(seq_run("d_%s_v%d_k%d" % (be, v, k), v, {"k": k, "vt": "absent" if k == 0 else "current"}, backend=be,
                                    family="c09", kind="dry", k=k))
    # recorded id differs from the compiled id (property C09, last clause; DESIGN D9)
    for k in range(1, n + 1):
        if ids[k - 1]:
            rows = [[vs[i], ids[i]] for i in range(k)]
            rows[k - 1][1] = "zzz-someone-elses-id"
            runs.append(seq_run("idc_k%d" % k, 0, {"k": k, "vt": "current", "rows": rows}, faults=((),), family="c09", kind="idconflict", k=k,
                                conflict_version=vs[k - 1]))
    if n:
        # version-table contents the migrator itself never writes: exercise the `as u32` decoding of lib.rs:302/320
        runs.append(seq_run("x_neg", 0, {"k": 0, "vt": "current", "rows": [[-1, "neg"]]}, faults=((),), family="c09", kind="exotic"))
        runs.append(seq_run("x_big", 0, {"k": 0, "vt": "current", "rows": [[9999999999, "big"]]}, faults=((),), family="c09", kind="exotic"))
        runs.append(seq_run("x_big_id", 0, {"k": 0, "vt": "current", "rows": [[vs[0], "other-id"], [9999999999, "big"]]}, faults=((),),
                            family="c09", kind="exotic"))
    return runs


# error values of different classes / texts handed back by the proxy: the generated code must treat them alike
ERR_VALUES = [("custom", "injected fault"),
              ("exec", "error returned from database: (code: 5) database is locked"),
              ("exec", "error returned from database: (code: 6) database table is locked"),
              ("exec", "error returned from database: 1205 (HY000): Lock wait timeout exceeded; try restarting transaction"),
              ("exec", "error returned from database: (code: 1) table \"users\" already exists"),
              ("exec", "error returned from database: (code: 1) duplicate column name: email"),
              ("conn", "connection reset by peer")]


def fault_runs(h, tier, rng, ncalls):
    n = len(h["versions"])
    runs = []
    for v in VARIANTS:
        for k in range(n + 1):
            nc = ncalls.get("%d:%d" % (v, k))
            if not nc:
                continue
            if tier == "thorough" or (v == 0 and k == 0):
                js = list(range(nc))
            else:
                js = sorted(set(rng.sample(range(nc), min(2, nc))))
            for j in js:
                r = seq_run("f_v%d_k%d_j%d" % (v, k, j), v, {"k": k, "vt": "absent" if k == 0 else "current"}, faults=((j,), ()),
                            family="c10", kind="fault", k=k, j=j)
                cls, txt = ERR_VALUES[(j + k + v) % len(ERR_VALUES)]
                r["instances"][0].update({"fault_class": cls, "fault_text": txt})
                r["tags"]["error_value"] = "%s: %s" % (cls, txt[:60])
                runs.append(r)
            if v == 0:
                j = rng.randrange(2, nc)
                runs.append(seq_run("f2_v0_k%d_j%d" % (k, j), 0, {"k": k, "vt": "legacy" if k else "absent"}, faults=((1, j), ()),
                                    family="c10", kind="fault", k=k, j=j))
    return runs


# ---- statements with their own transaction control (mirror of coq/mig/Model/Script.v: split at `;`, leading keyword)
def _kw(k, u):
    return u == k or u.startswith(k + " ")


def script_ops(stmt):
    ops = []
    for p in [x.strip(" \t\n\r") for x in stmt.split(";")]:
        if not p:
            continue
        u = p.upper()
        if _kw("BEGIN", u):
            ops.append(("begin", p))
        elif _kw("COMMIT", u) or _kw("END", u):
            ops.append(("end", p))
        elif u.startswith("ROLLBACK TO"):
            ops.append(("piece", p))
        elif _kw("ROLLBACK", u):
            ops.append(("rollback", p))
        elif _kw("SAVEPOINT", u):
            ops.append(("savepoint", p))
        elif _kw("RELEASE", u):
            ops.append(("release", p))
        else:
            ops.append(("piece", p))
    return ops


def has_ctl(stmt):
    return any(k != "piece" for k, _ in script_ops(stmt))


def breaks_out(stmt):
    """mirror of Script.breaks_out: a COMMIT / END / ROLLBACK not preceded in the same script by its BEGIN"""
    opened = False
    for k, _ in script_ops(stmt):
        if k == "begin":
            opened = True
        elif k in ("end", "rollback"):
            if not opened:
                return True
            opened = False
    return False


def units_of(stmt):
    """what the model appends to the committed statement list for one statement"""
    return [p for k, p in script_ops(stmt) if k == "piece"] if has_ctl(stmt) else [stmt]


def source_raw(h):
    return [a["sql"] for m in h["migrations"] for a in m.get("actions", []) if a.get("type") == "raw_sql"]


def script_runs(h, tier, migs, ncalls=None):
    """histories whose raw_sql scripts carry transaction control: every start version, both code shapes, two
    consecutive starts; then a fault at every call of the first start"""
    n = len(migs)
    units = [[u for st in sqlite_stmts(m) for u in units_of(st)] for m in migs]
    prefix = lambda k: [u for us in units[:k] for u in us]
    # a script that ends the migrator's transaction leaves half-applied states behind; a second start on such a
    # state trips over its own leftovers (natural duplicate-object errors, not modelled): one start only there
    second = [] if any(breaks_out(x) for x in source_raw(h)) else [{"faults": []}]
    runs = []
    for v in (0, 1):
        for k in range(n + 1):
            init = {"k": k, "vt": "absent" if k == 0 else "current", "stmts": prefix(k)}
            if ncalls is None:
                runs.append({"name": "s_v%d_k%d" % (v, k), "variant": v, "backend": "sqlite", "mode": "sequential", "init": init,
                             "instances": [{"faults": []}] + second, "schedule": [],
                             "tags": {"family": "c10", "kind": "script", "k": k, "ncalls_key": "%d:%d" % (v, k)}})
            elif v == 0 or tier == "thorough":
                for j in range(ncalls.get("%d:%d" % (v, k), 0)):
                    cls, txt = ERR_VALUES[(j + k) % len(ERR_VALUES)]
                    runs.append({"name": "sf_v%d_k%d_j%d" % (v, k, j), "variant": v, "backend": "sqlite", "mode": "sequential", "init": init,
                                 "instances": [{"faults": [j], "fault_class": cls, "fault_text": txt}] + second, "schedule": [],
                                 "tags": {"family": "c10", "kind": "script", "k": k, "j": j, "error_value": "%s: %s" % (cls, txt[:60])}})
    keys = [prefix(n)[:i] for i in range(len(prefix(n)) + 1)]
    return runs, keys


def persistent_runs(h, tier, out1):
    """persistent faults keyed by statement: EVERY execution of one pending statement fails (however often it is
    attempted), with error values of different classes; afterwards the fault is lifted and the run repeated"""
    migs, n = out1["migs"], len(out1["migs"])
    runs = []
    for v in (0, 1):
        for k in (range(n) if tier == "thorough" else sorted({0, max(n - 1, 0)})):
            pos, call = [], 5
            for m in migs[k:]:
                for st in [x for a in m["actions"] for x in a["sqlite"] if x]:
                    pos.append((call, st))
                    call += 1
                call += 1
            # a statement text that occurs twice among the pending ones would fail at its first occurrence: keep first occurrences
            seen, uniq = set(), []
            for c, st in pos:
                if st not in seen:
                    seen.add(st)
                    uniq.append((c, st))
            if not uniq:
                continue
            if tier == "thorough":
                picks = uniq
            else:
                picks = [uniq[0], uniq[-1]] if (k == 0 and len(uniq) > 1) else [uniq[0]]
            for (c, st) in picks:
                # all seven error values on the non-verbose shape (thorough: at k = 0, every position); two elsewhere
                vals = ERR_VALUES if (v == 0 and (tier == "quick" or k == 0)) else [ERR_VALUES[0], ERR_VALUES[1]]
                for ei, (cls, txt) in enumerate(vals):
                    runs.append({"name": "pf_v%d_k%d_c%d_e%d" % (v, k, c, ei), "variant": v, "backend": "sqlite", "mode": "sequential",
                                 "init": {"k": k, "vt": "absent" if k == 0 else "current"},
                                 "instances": [{"faults": [], "sfaults": [{"sql": st, "class": cls, "text": txt}]}, {"faults": []}], "schedule": [],
                                 "tags": {"family": "c10", "kind": "persistent", "k": k, "j": c, "statement": st[:120],
                                          "error_value": "%s: %s" % (cls, txt[:60])}})
    return runs


CT_RE = re.compile(r'^CREATE TABLE "([^"]+)" \(')
CI_RE = re.compile(r'^CREATE (?:UNIQUE )?INDEX "([^"]+)" ON "([^"]+)"')
AC_RE = re.compile(r'^ALTER TABLE "([^"]+)" ADD COLUMN "([^"]+)"')


def obstacle_for(stmt):
    """an object created by hand that makes `stmt` fail on the engine with a duplicate-object error:
    -> (kind, obstacle sql, undo sql, names that must not be touched by earlier pending statements)"""
    m = CT_RE.match(stmt)
    if m:
        return ("table", 'CREATE TABLE "%s" ("obstacle" integer)' % m.group(1), 'DROP TABLE "%s"' % m.group(1), [m.group(1)])
    m = CI_RE.match(stmt)
    if m:
        return ("index", stmt, 'DROP INDEX "%s"' % m.group(1), [m.group(1), m.group(2)])
    m = AC_RE.match(stmt)
    if m:
        return ("column", stmt, 'ALTER TABLE "%s" DROP COLUMN "%s"' % (m.group(1), m.group(2)), [m.group(1)])
    return None


def obstacle_runs(h, tier, out1):
    """natural engine failures: before the run somebody created, by hand, an object that a pending statement
    creates (table / index / column), at every position of the pending list where that is the first thing
    touching the object; fresh and partially migrated databases; both code shapes"""
    migs, n = out1["migs"], len(out1["migs"])
    runs = []
    for v in (0, 1):
        for k in range(n):
            call, earlier = 5, []
            for m in migs[k:]:
                for st in [x for a in m["actions"] for x in a["sqlite"] if x]:
                    ob = obstacle_for(st)
                    if ob and not any(('"%s"' % nm) in e or (" %s" % nm) in e for nm in ob[3] for e in earlier):
                        kind, osql, undo, _ = ob
                        runs.append({"name": "ob_v%d_k%d_c%d" % (v, k, call), "variant": v, "backend": "sqlite", "mode": "sequential",
                                     "init": {"k": k, "vt": "absent" if k == 0 else "current", "obstacles": [osql]},
                                     "instances": [{"faults": []}, {"faults": []}], "between": [[undo]], "schedule": [],
                                     "tags": {"family": "c10", "kind": "obstacle", "k": k, "j": call, "object": kind, "statement": st[:120],
                                              "obstacle": osql[:120]}})
                    earlier.append(st)
                    call += 1
                call += 1          # the version INSERT of this migration
    return runs


def interleavings(a, b):
    """all merges of a zeros and b ones"""
    if a == 0:
        yield [1] * b
        return
    if b == 0:
        yield [0] * a
        return
    for r in interleavings(a - 1, b):
        yield [0] + r
    for r in interleavings(a, b - 1):
        yield [1] + r


def conc_runs(h, tier, rng, ncalls):
    n = len(h["versions"])
    runs = []

    def add(name, v, k, sched, ninst=2, vt=None, **tags):
        insts = [{} for _ in range(ninst + 1)]
        runs.append({"name": name, "variant": v, "backend": "sqlite", "init": {"k": k, "vt": vt or ("absent" if k == 0 else "current")},
                     "instances": insts, "late": [ninst], "schedule": sched,
                     "tags": dict(family="c11", kind="interleaved", k=k, ninst=ninst, **tags)})
    ks = sorted({0, max(n - 1, 0)}) if tier == "quick" else list(range(n + 1))
    for v in ((0, 3) if tier == "quick" else tuple(VARIANTS)):
        for k in ks:
            nc = ncalls.get("%d:%d" % (v, k)) or 8
            if v == 0 or tier == "thorough":
                add("c_alt_v%d_k%d" % (v, k), v, k, [0, 1] * nc, shape="alternate")
                # 1 holds SHARED while 0 does everything: 0's COMMIT is refused, then 1 goes through
                add("c_blk_v%d_k%d" % (v, k), v, k, [0] * 3 + [1] * 5 + [0] * nc, shape="reader-blocks-commit")
                add("c_late_v%d_k%d" % (v, k), v, k, [0] * (nc - 1) + [1] * 3 + [0] + [1] * nc, shape="second-starts-before-commit")
                # the second instance reads the version while the first is in the middle of its statements
                for cut in sorted({nc // 4, nc // 2, (3 * nc) // 4, max(nc - 3, 0)}):
                    if cut >= 6:
                        add("c_mid%d_v%d_k%d" % (cut, v, k), v, k, [0] * cut + [1] * 5 + [0] * nc + [1] * nc, shape="second-reads-mid-run")
            for r in range(6 if tier == "quick" else 12):
                sched = [rng.randrange(2) for _ in range(2 * nc)]
                add("c_rnd%d_v%d_k%d" % (r, v, k), v, k, sched, shape="random")
            for r in range(2 if tier == "quick" else 6):
                sched = [rng.randrange(3) for _ in range(3 * nc)]
                add("c3_rnd%d_v%d_k%d" % (r, v, k), v, k, sched, ninst=3, shape="random3")
            if k >= 1:
                for r in range(2):
                    sched = [rng.randrange(2) for _ in range(2 * nc)]
                    add("c_leg%d_v%d_k%d" % (r, v, k), v, k, sched, vt="legacy", shape="random-legacy")
    if tier == "thorough":
        # exhaustive: both instances past create/alter/begin, every interleaving of the transaction parts
        # (5 calls each = 252 schedules, 6 = 924; 7 = 3432 only for the small corpus histories)
        for k in sorted({max(n - 1, 0), max(n - 2, 0)}):
            nc = ncalls.get("0:%d" % k)
            cap = 7 if (n <= 2 and not h["name"].startswith("g")) else 6
            if not nc or nc - 3 > cap:
                continue
            for idx, il in enumerate(interleavings(nc - 3, nc - 3)):
                add("c_ex_k%d_%d" % (k, idx), 0, k, [0, 0, 0, 1, 1, 1] + il, shape="exhaustive-txn")
        # exhaustive: the parts outside the transaction (create, alter, begin, first read) on a fresh database
        for idx, il in enumerate(interleavings(4, 4)):
            add("c_exp_%d" % idx, 0, 0, il, shape="exhaustive-prelude")
            if n:
                add("c_expl_%d" % idx, 0, 1, il, vt="legacy", shape="exhaustive-prelude-legacy")
    return runs


def crash_points(h, tier, rng, ncalls):
    n = len(h["versions"])
    pts = []
    for k in (range(n + 1) if tier == "thorough" else sorted({0, min(1, n)})):
        nc = ncalls.get("0:%d" % k)
        if not nc:
            continue
        js = range(nc + 1) if tier == "thorough" else sorted({1, 2, 5, nc // 2 + 3, nc - 1, nc} & set(range(nc + 1)))
        for j in js:
            pts.append((k, j))
    return pts


# ------------------------------------------------------------------------------------------ Gallina printing
def gs(s):
    return '"' + s.replace('"', '""') + '"'


def glist(xs):
    return "[" + "; ".join(xs) + "]"


def gz(v):
    return "(%d)%%Z" % v


def g_opts(out, run):
    be = {"sqlite": "Sqlite", "postgres": "Postgres", "mysql": "MySql"}[run["backend"]]
    v = run["variant"]
    return "(mkOpts %s %s %s %s)" % (be, gs(out["prefix"]), '(Some "custom_versions")' if v >= 2 else "None", "true" if v % 2 else "false")


def g_migs(out):
    ms = []
    for m in out["migs"]:
        acts = ["mkAct %s %s %s" % (glist(map(gs, a["pg"])), glist(map(gs, a["mysql"])), glist(map(gs, a["sqlite"]))) for a in m["actions"]]
        ms.append("mkMig %d%%N %s %s" % (m["version"], gs(m["id"]), glist(acts)))
    return glist(ms)


def g_obs(o):
    vt = "None"
    if o["vt_exists"]:
        vt = "(Some (%s, %s))" % ("true" if o["vt_has_id"] else "false", glist("(%s, %s)" % (gz(r[0]), gs(r[1])) for r in o["rows"]))
    return "(mkObs %s %s)" % (vt, gs(o["catalog"]))


def g_db(obs, applied):
    vt = "None"
    if obs["vt_exists"]:
        vt = "(Some (mkVt %s %s))" % ("true" if obs["vt_has_id"] else "false", glist("(%s, %s)" % (gz(r[0]), gs(r[1])) for r in obs["rows"]))
    return "(mkDb %s %s)" % (vt, glist(map(gs, applied)))


EVK = {"pool_exec": "EPoolExec", "query_one": "EQueryOne", "query_all": "EQueryAll", "txn_exec": "ETxnExec"}


def g_ev(e):
    ok = "true" if e["ok"] else "false"
    if e["k"] == "begin":
        return "EBegin " + ok
    if e["k"] == "commit":
        return "ECommit " + ok
    return "%s %s %s" % (EVK[e["k"]], gs(e["sql"]), ok)


def g_result(r):
    if r is None:
        return "None"
    if r["kind"] == "ok":
        return "(Some ROk)"
    if r["kind"] == "database_error":
        return "(Some (RErr DatabaseError))"
    if r["kind"] == "id_mismatch":
        return "(Some (RErr (IdMismatch %d%%N %s %s)))" % (r["version"], gs(r["expected"]), gs(r["found"]))
    return "None"


def g_case(out, run, applied, crash=None, model_faults=None):
    insts = glist("(%s, %s)" % (g_result(i["result"]), glist(map(g_ev, i["log"]))) for i in run["instances"])
    fl = model_faults if model_faults is not None else [(i.get("faults") or []) for i in run["instances"]]
    faults = glist(glist("%d%%nat" % j for j in f) for f in fl)
    return ("mkCase %s ms %s\n   %s %s %s %s %s refc\n   %s\n   %s\n   %s" % (
        g_opts(out, run), g_db(run["before"], applied), faults, glist("%d%%nat" % p for p in run["schedule"]),
        "true" if run.get("sequential") else "false", "true" if run.get("dry") else "false",
        "None" if crash is None else "(Some %d%%nat)" % crash, insts, glist(map(g_obs, run.get("mids", []))), g_obs(run["after"]))) + "\n   srcraw"


def write_shard(path, out, cases, extra_refcats=(), src_raw=()):
    """cases: list of Gallina mkCase terms sharing `ms` and `refc`"""
    refs = [(r["stmts"], r["catalog"] if isinstance(r["catalog"], str) else "ERROR") for r in out["refcats"] if "stmts" in r]
    for st, cat in extra_refcats:
        if (st, cat) not in refs:
            refs.append((st, cat))
    refc = glist("(%s, %s)" % (glist(map(gs, st)), gs(cat)) for st, cat in refs)
    body = ["From VV.MIG Require Import Corr.", "Definition ms : list mig := %s." % g_migs(out),
            "Definition refc : list (list string * string) := %s." % refc,
            "Definition srcraw : list string := %s." % glist(map(gs, src_raw)),
            "Definition cases : list mig_case := [", ";\n".join(cases), "].",
            "Definition bad := mismatches cases.", "Eval vm_compute in bad.",
            "Eval vm_compute in map flag_code cases."]
    open(path, "w").write("\n".join(body) + "\n")


# ------------------------------------------------------------------------------------------ the whole K-mig run
def sqlite_stmts(m):
    return [s for a in m["actions"] for s in a["sqlite"] if s]


def applied_of(out, run):
    a = run["init"].get("applied")
    if a is not None:
        return a
    return None


def crash_case(binp, hdir, wd, k, j, tag):
    """kill the process before its j-th connection call on a database prepared at the k-th migration"""
    db = os.path.join(wd, "crash_k%d_j%d.db" % (k, j))
    init = {"k": k, "vt": "absent" if k == 0 else "current"}
    base = {"work": wd, "project": hdir, "no_refcats": True}
    o0, _, e0 = run_bin(binp, dict(base, runs=[{"name": "prep", "variant": 0, "init": init, "db": db, "instances": [], "keep_db": True}]), tag + ".c0")
    oa, rca, _ = run_bin(binp, dict(base, runs=[{"name": "die", "variant": 0, "db": db, "reuse": True, "keep_db": True,
                                                 "instances": [{"abort_at": j}], "mode": "sequential"}]), tag + ".c1")
    o2, _, e2 = run_bin(binp, dict(base, runs=[{"name": "look", "variant": 0, "db": db, "reuse": True, "keep_db": True, "instances": []},
                                               {"name": "rerun", "variant": 0, "db": db, "reuse": True, "instances": [{}], "mode": "sequential"}]), tag + ".c2")
    if o0 is None or o2 is None:
        return {"error": (e0 or "") + (e2 or "")}
    return {"k": k, "j": j, "died": oa is None, "prep": o0["runs"][0], "look": o2["runs"][0], "rerun": o2["runs"][1],
            "survivor": None if oa is None else oa["runs"][0]}


def run_history(hdir, tier, seed, work, built):
    """-> dict(name, cases [..], build info) ; one Coq shard per history"""
    h = read_history(hdir)
    res = {"name": h["name"], "n_migs": len(h["versions"]), "versions": h["versions"], "runs": [], "crashes": [], "error": None}
    binp, log, dt, cached, key = built
    res.update({"build_s": round(dt, 1), "build_cached": cached, "key": key})
    if binp is None:
        res["error"] = {"stage": "compile", "log": log}
        return res
    rng = random.Random(int(hashlib.sha1(("%s:%s" % (seed, h["name"])).encode()).hexdigest()[:8], 16))
    wd = os.path.join(work, h["name"])
    shutil.rmtree(wd, ignore_errors=True)
    os.makedirs(wd)
    res["src_raw"] = source_raw(h)
    if any(has_ctl(x) for x in res["src_raw"]):
        return run_scripted_history(h, hdir, tier, binp, wd, res)
    # the compiled-in history is a copy of hdir (the cache key is its content hash): re-derive from hdir
    out1, rc, err = run_bin(binp, {"work": wd, "project": hdir, "runs": base_runs(h, tier)}, h["name"] + ".1")
    if out1 is None:
        res["error"] = {"stage": "run-base", "rc": rc, "log": err}
        return res
    ncalls = {}
    for r in out1["runs"]:
        if "harness_error" in r:
            res["error"] = {"stage": "harness", "log": r["harness_error"], "run": r.get("name")}
            return res
        key_nc = (r.get("tags") or {}).get("ncalls_key")
        if key_nc:
            ncalls[key_nc] = len(r["instances"][0]["log"])
    runs2 = fault_runs(h, tier, rng, ncalls) + obstacle_runs(h, tier, out1) + persistent_runs(h, tier, out1) + conc_runs(h, tier, rng, ncalls)
    out2, rc, err = run_bin(binp, {"work": wd, "project": hdir, "no_refcats": True, "runs": runs2}, h["name"] + ".2")
    if out2 is None:
        res["error"] = {"stage": "run-faults", "rc": rc, "log": err}
        return res
    skipped = []
    for r in out2["runs"]:
        if "harness_error" in r:
            res["error"] = {"stage": "harness", "log": r["harness_error"], "run": r.get("name")}
            return res
        if (r.get("init") or {}).get("obstacle_error"):
            skipped.append({"run": r["name"], "why": r["init"]["obstacle_error"][:200]})
    res["obstacles_not_applicable"] = skipped
    runs = out1["runs"] + [r for r in out2["runs"] if not (r.get("init") or {}).get("obstacle_error")]
    # process kills: prepare / run-and-die / look / re-run, each in its own process
    crashes = []
    for (k, j) in crash_points(h, tier, rng, ncalls):
        c = crash_case(binp, hdir, wd, k, j, h["name"])
        if "error" in c:
            res["error"] = {"stage": "crash-harness", "log": c["error"]}
            return res
        crashes.append(c)
    res["out"] = {"prefix": out1["prefix"], "migs": out1["migs"], "refcats": out1["refcats"]}
    res["runs"] = runs
    res["crashes"] = crashes
    return res


def run_scripted_history(h, hdir, tier, binp, wd, res):
    """raw_sql scripts with BEGIN / COMMIT / END / ROLLBACK / SAVEPOINT: sequential families only"""
    res["scripted"] = True
    o0, rc, err = run_bin(binp, {"work": wd, "project": hdir, "no_refcats": True, "runs": []}, h["name"] + ".0")
    if o0 is None:
        res["error"] = {"stage": "run-derive", "rc": rc, "log": err}
        return res
    runs1, keys = script_runs(h, tier, o0["migs"])
    out1, rc, err = run_bin(binp, {"work": wd, "project": hdir, "runs": runs1, "refcat_keys": keys}, h["name"] + ".1")
    if out1 is None:
        res["error"] = {"stage": "run-base", "rc": rc, "log": err}
        return res
    ncalls = {}
    for r in out1["runs"]:
        if "harness_error" in r:
            res["error"] = {"stage": "harness", "log": r["harness_error"], "run": r.get("name")}
            return res
        ncalls[r["tags"]["ncalls_key"]] = len(r["instances"][0]["log"])
    runs2, _ = script_runs(h, tier, o0["migs"], ncalls)
    out2, rc, err = run_bin(binp, {"work": wd, "project": hdir, "no_refcats": True, "runs": runs2}, h["name"] + ".2")
    if out2 is None:
        res["error"] = {"stage": "run-faults", "rc": rc, "log": err}
        return res
    for r in out2["runs"]:
        if "harness_error" in r:
            res["error"] = {"stage": "harness", "log": r["harness_error"], "run": r.get("name")}
            return res
    res["out"] = {"prefix": out1["prefix"], "migs": out1["migs"], "refcats": out1["refcats"] + out1.get("refcats_extra", []),
                  "full_catalog": (out1.get("refcats_extra") or [{}])[-1].get("catalog")}
    res["runs"] = out1["runs"] + out2["runs"]
    res["crashes"] = []
    return res


def history_cases(hres):
    """-> list of (gallina term, descriptor)"""
    out = hres["out"]
    cases = []
    for r in hres["runs"]:
        tags = r.get("tags") or {}
        if tags.get("kind") == "obstacle":
            # the model is told WHERE the engine refuses (the call of the statement whose object exists already),
            # not what the implementation did; compared: the failed run only (log, Err, database = before)
            first = dict(r, instances=r["instances"][:1], schedule=[p for p in r["schedule"] if p == 0], mids=r["mids"][:1], after=r["mids"][0])
            cases.append((g_case(out, first, r["init"]["applied"], model_faults=[[tags["j"]]]),
                          {"history": hres["name"], "run": r["name"], "tags": tags,
                           "refcat": [r["init"]["applied"], r["before"]["catalog"]]}))
            continue
        if tags.get("kind") == "persistent":
            # no retry exists in the model: the run ends at the FIRST failing execution, i.e. a fault at that call
            cases.append((g_case(out, r, r["init"]["applied"], model_faults=[[tags["j"]], []]),
                          {"history": hres["name"], "run": r["name"], "tags": tags}))
            continue
        cases.append((g_case(out, r, r["init"]["applied"]), {"history": hres["name"], "run": r["name"], "tags": tags}))
    for c in hres["crashes"]:
        look = c["look"]
        fake = {"variant": 0, "backend": "sqlite", "before": c["prep"]["before"], "instances": [], "schedule": [], "after": look["after"], "mids": []}
        applied = [s for m in out["migs"][:c["k"]] for s in sqlite_stmts(m)]
        cases.append((g_case(out, fake, applied, crash=c["j"]),
                      {"history": hres["name"], "run": "crash_k%d_j%d" % (c["k"], c["j"]), "tags": {"family": "c10", "kind": "crash", "k": c["k"], "j": c["j"]}}))
    return cases


def run_mig(tier, seed):
    """Everything the three checks share.  Cached per (repo, harness, model, corpus, tier, seed)."""
    t0 = time.time()
    rcb, outb, _ = vflib.build_harness("migrt", ws="harness_mig")
    if rcb != 0:
        return {"build_error": outb[-3000:]}
    rc2, out2 = vflib.build_layer("mig")
    if rc2 != 0:
        return {"coq_error": out2[-3000:]}
    key = hashlib.sha1((repo_key() + harness_key() + tree_hash([CORPUS, os.path.join(ROOT, "coq", "mig", "Model"), os.path.join(ROOT, "coq", "mig", "Corr"),
                                                                os.path.abspath(__file__)], skip=("/target/", "/.git/", ".vo", ".glob", ".aux"))).encode()).hexdigest()[:16]
    d = os.path.join(MIG, "run", "%s_%s_%s" % (key, tier, seed))
    done = os.path.join(d, "result.json")
    if os.path.exists(done):
        res = json.load(open(done))
        res["cached"] = True
        return res
    with MigLock():
        return run_mig_locked(tier, seed, key, d, done, t0)


def run_mig_locked(tier, seed, key, d, done, t0):
    if os.path.exists(done):            # somebody else produced it while we waited
        res = json.load(open(done))
        res["cached"] = True
        return res
    for old in glob.glob(os.path.join(MIG, "run", "*_%s_%s" % (tier, seed))):
        shutil.rmtree(old, ignore_errors=True)
    os.makedirs(d)
    work = os.path.join(d, "work")
    hdirs = history_dirs(tier, seed)
    built = [build_case(hd) for hd in hdirs]          # sequential: one shared build directory
    from concurrent.futures import ThreadPoolExecutor
    with ThreadPoolExecutor(max_workers=8) as ex:
        hist = list(ex.map(lambda a: run_history(a[0], tier, seed, work, a[1]), zip(hdirs, built)))
    # keep the binary cache bounded: the 40 most recently used
    bins = sorted(glob.glob(os.path.join(MIG, "bin", "*")), key=os.path.getmtime, reverse=True)
    for b in bins[40:]:
        shutil.rmtree(b, ignore_errors=True)
    shutil.rmtree(work, ignore_errors=True)
    # Coq shards: cases of one history share its `ms` / `refc`; at most per_shard cases per file
    per_shard = 60 if tier == "quick" else 150
    descr, shard_of, si = [], {}, 0
    for hr in hist:
        if hr.get("error"):
            continue
        cs = history_cases(hr)
        for a in range(0, len(cs), per_shard):
            part = cs[a:a + per_shard]
            write_shard(os.path.join(d, "cases_mig_%03d.v" % si), hr["out"], [c for c, _ in part],
                        [tuple(ds["refcat"]) for _, ds in part if ds.get("refcat")], hr.get("src_raw") or [])
            for li, (_, ds) in enumerate(part):
                ds.update({"shard": si, "local": li, "gidx": len(descr)})
                descr.append(ds)
            shard_of[si] = hr["name"]
            si += 1
    mism, errors, flags = {}, [], {}
    for f, rc, o, dt in vflib.run_shards("mig", d, "cases_mig_*.v"):
        si = int(re.search(r"cases_mig_(\d+)\.v", f).group(1))
        if rc != 0:
            errors.append({"shard": os.path.basename(f), "history": shard_of.get(si), "log": o[-1500:]})
            continue
        blocks = vflib.parse_eval_outputs(o)
        for (li, subs) in vflib.parse_nat_pairs(blocks[0] if blocks else ""):
            mism["%d:%d" % (si, li)] = subs
        if len(blocks) > 1:
            flags[si] = vflib.parse_nat_list(blocks[1])
    for ds in descr:
        ds["mismatch"] = mism.get("%d:%d" % (ds["shard"], ds["local"]), [])
        fl = flags.get(ds["shard"], [])
        code = fl[ds["local"]] if ds["local"] < len(fl) else None
        ds["hyp"] = None if code is None else {"ascending": bool(code & 1), "versions_u32": bool(code & 2), "rows_u32": bool(code & 4),
                                               "at_version": bool(code & 8), "id_conflict": bool(code & 16),
                                               "versions_lt_2_31": bool(code & 32), "versions_distinct": bool(code & 64),
                                               "breaks_out": bool(code & 128), "has_ctl": bool(code & 256)}
    res = {"dir": d, "histories": hist, "cases": descr, "shard_errors": errors,
           "wall_s": round(time.time() - t0, 1), "cached": False}
    json.dump(res, open(done, "w"))
    return res


# ------------------------------------------------------------------------------------------ oracles (implementation only)
INS_RE = re.compile(r"^INSERT INTO (.)(.*)\1 \(version, id\) VALUES \((\d+), '(.*)'\)$", re.S)


def backend_key(run):
    return {"sqlite": "sqlite", "postgres": "pg", "mysql": "mysql"}[run.get("backend", "sqlite")]


def mig_stmts(m, key):
    return [s for a in m["actions"] for s in a[key] if s]


def split_txn(log):
    """-> (user statements that succeeded, version inserts that succeeded [(v, id)], any failed call?)"""
    user, ins, failed = [], [], False
    for e in log:
        if not e["ok"] and e["k"] != "pool_exec":
            failed = True
        if e["k"] == "txn_exec" and e["ok"]:
            m = INS_RE.match(e["sql"])
            if m:
                ins.append((int(m.group(3)), m.group(4)))
            else:
                user.append(e["sql"])
    return user, ins, failed


def full_state(h, run, base_rows):
    """the state one sequential run must end in: (rows, catalog) """
    migs = h["out"]["migs"]
    maxv = max([r[0] for r in base_rows], default=0)
    pend = [m for m in migs if m["version"] > maxv]
    rows = [list(r) for r in base_rows] + [[m["version"], m["id"]] for m in pend]
    cat = h["out"]["refcats"][len(migs)]["catalog"] if h["out"]["refcats"] else None
    return pend, rows, cat


def legacy_rows(before):
    return [[r[0], r[1] if before["vt_has_id"] else ""] for r in before["rows"]]


def oracle_c09(h, run):
    """run from version k: only later migrations' statements, in order; second run nothing; same schema as a fresh run;
    a recorded id that differs from the compiled id is reported"""
    tags, fails = run.get("tags") or {}, []
    kind = tags.get("kind")
    if kind == "exotic":
        return None
    insts = run["instances"]
    key = backend_key(run)
    if kind == "idconflict":
        r = insts[0]["result"]
        if not (r and r["kind"] == "id_mismatch" and r.get("version") == tags.get("conflict_version")):
            fails.append({"clause": "id-mismatch-reported", "got": r, "recorded": run["before"]["rows"]})
        return {"ok": not fails, "fails": fails}
    pend, rows, cat = full_state(h, run, legacy_rows(run["before"]))
    user, ins, _ = split_txn(insts[0]["log"])
    if not insts[0]["result"] or insts[0]["result"]["kind"] != "ok":
        fails.append({"clause": "first-run-ok", "got": insts[0]["result"]})
    exp_user = [s for m in pend for s in mig_stmts(m, key)]
    if user != exp_user:
        fails.append({"clause": "exactly-pending-statements-in-order", "expected": exp_user, "got": user})
    if ins != [(m["version"], m["id"]) for m in pend]:
        fails.append({"clause": "one-version-row-each", "expected": [(m["version"], m["id"]) for m in pend], "got": ins})
    mid = run["mids"][0] if run.get("mids") else run["after"]
    if mid["rows"] != rows:
        fails.append({"clause": "versions-recorded", "expected": rows, "got": mid["rows"]})
    if not run.get("dry") and cat is not None and mid["catalog"] != cat:
        fails.append({"clause": "same-schema-as-fresh-run", "expected": cat, "got": mid["catalog"]})
    if len(insts) > 1:
        u2, i2, _ = split_txn(insts[1]["log"])
        n_exec2 = sum(1 for e in insts[1]["log"] if e["k"] == "txn_exec")
        if n_exec2 or not insts[1]["result"] or insts[1]["result"]["kind"] != "ok":
            fails.append({"clause": "second-run-executes-nothing", "executed": [e["sql"] for e in insts[1]["log"] if e["k"] == "txn_exec"],
                          "result": insts[1]["result"]})
        if run["after"]["rows"] != mid["rows"] or run["after"]["catalog"] != mid["catalog"]:
            fails.append({"clause": "second-run-changes-nothing"})
    # both code shapes: the same statement texts, byte for byte, and the same database afterwards
    twin = h.get("_by_name", {}).get(twin_name(run["name"], run["variant"]))
    if twin is not None and not run.get("dry"):
        u2, i2, _ = split_txn(twin["instances"][0]["log"])
        if u2 != user:
            fails.append({"clause": "verbose-and-default-issue-the-same-statement-texts", "this_shape": [x for x, y in zip(user, u2) if x != y][:2] or user[len(u2):][:2],
                          "other_shape": [y for x, y in zip(user, u2) if x != y][:2] or u2[len(user):][:2]})
        tmid = twin["mids"][0] if twin.get("mids") else twin["after"]
        if tmid["catalog"] != mid["catalog"] or tmid["rows"] != mid["rows"]:
            fails.append({"clause": "verbose-and-default-leave-the-same-database", "this": mid["catalog"][:400], "other": tmid["catalog"][:400]})
    return {"ok": not fails, "fails": fails}


def twin_name(name, variant):
    """the same run under the other code shape (verbose <-> default), same version-table option"""
    return name.replace("_v%d_" % variant, "_v%d_" % (variant ^ 1))


def same_but_bookkeeping(a, b):
    return a["catalog"] == b["catalog"] and [r[0] for r in a["rows"]] == [r[0] for r in b["rows"]]


def oracle_c10(h, run):
    """fault at call j: database unchanged except for the (empty / upgraded) bookkeeping table; re-run completes"""
    fails = []
    insts = run["instances"]
    faults = insts[0].get("faults") or []
    r0 = insts[0]["result"]
    mid = run["mids"][0]
    pend, rows, cat = full_state(h, run, legacy_rows(run["before"]))
    hit = [j for j in faults if j < len(insts[0]["log"]) and insts[0]["log"][j].get("injected")]
    if r0 and r0["kind"] == "ok":
        if [j for j in hit if j != 1]:
            fails.append({"clause": "injected-failure-not-swallowed", "faults": faults})
    elif r0 and r0["kind"] == "database_error":
        if not same_but_bookkeeping(run["before"], mid):
            fails.append({"clause": "failed-run-changes-nothing", "before": run["before"], "after_failed_run": mid})
    else:
        fails.append({"clause": "ok-or-database-error", "got": r0})
    r1 = insts[1]["result"]
    if not r1 or r1["kind"] != "ok" or run["after"]["rows"] != rows or (cat is not None and run["after"]["catalog"] != cat):
        fails.append({"clause": "rerun-reaches-uninterrupted-final-state", "result": r1, "expected_rows": rows, "got_rows": run["after"]["rows"],
                      "catalog_equal": run["after"]["catalog"] == cat})
    return {"ok": not fails, "fails": fails}


def oracle_obstacle(h, run):
    """an object a pending statement creates exists already: the run must fail, change nothing, and complete after
    the obstacle is removed"""
    fails = []
    insts = run["instances"]
    r0, mid = insts[0]["result"], run["mids"][0]
    if not r0 or r0["kind"] != "database_error":
        fails.append({"clause": "engine-refusal-returns-err", "got": r0, "obstacle": run["tags"].get("obstacle"),
                      "executed_after_refusal": [e["sql"][:80] for e in insts[0]["log"] if e["k"] in ("txn_exec", "commit")][-4:]})
    if not same_but_bookkeeping(run["before"], mid):
        fails.append({"clause": "failed-run-changes-nothing", "rows_before": run["before"]["rows"], "rows_after": mid["rows"],
                      "catalog_equal": run["before"]["catalog"] == mid["catalog"]})
    base = dict(run, before=dict(run["before"]))
    pend, rows, cat = full_state(h, base, legacy_rows(run["before"]))
    r1 = insts[1]["result"]
    if not r1 or r1["kind"] != "ok" or run["after"]["rows"] != rows or (cat is not None and run["after"]["catalog"] != cat):
        fails.append({"clause": "rerun-after-removing-the-obstacle-completes", "result": r1, "expected_rows": rows, "got_rows": run["after"]["rows"],
                      "catalog_equal": run["after"]["catalog"] == cat, "got_catalog": run["after"]["catalog"][:600], "expected_catalog": (cat or "")[:600]})
    return {"ok": not fails, "fails": fails}


def oracle_persistent(h, run):
    """a pending statement fails every time it is executed, with some error value: the run must return Err after
    ONE execution of it, change nothing, and complete once the fault is lifted"""
    fails = []
    insts = run["instances"]
    r0, mid = insts[0]["result"], run["mids"][0]
    st = (insts[0].get("sfaults") or [{}])[0].get("sql")
    tries = sum(1 for e in insts[0]["log"] if e["k"] == "txn_exec" and e["sql"] == st)
    if not r0 or r0["kind"] != "database_error":
        fails.append({"clause": "failing-statement-returns-err", "got": r0, "error_value": run["tags"].get("error_value"), "executions_of_the_statement": tries,
                      "calls_after_it": [e["sql"][:80] or e["k"] for e in insts[0]["log"]][-3:]})
    if tries != 1:
        fails.append({"clause": "no-retry-of-a-failed-statement", "executions": tries, "error_value": run["tags"].get("error_value")})
    if not same_but_bookkeeping(run["before"], mid):
        fails.append({"clause": "failed-run-changes-nothing", "rows_before": run["before"]["rows"], "rows_after": mid["rows"],
                      "catalog_equal": run["before"]["catalog"] == mid["catalog"]})
    pend, rows, cat = full_state(h, run, legacy_rows(run["before"]))
    r1 = insts[1]["result"]
    if not r1 or r1["kind"] != "ok" or run["after"]["rows"] != rows or (cat is not None and run["after"]["catalog"] != cat):
        fails.append({"clause": "rerun-after-the-fault-is-lifted-completes", "result": r1, "expected_rows": rows, "got_rows": run["after"]["rows"],
                      "catalog_equal": run["after"]["catalog"] == cat})
    return {"ok": not fails, "fails": fails}


def oracle_script(h, run):
    """statements with their own transaction control: whatever they do, a start that returns Err — with or
    without an injected fault — leaves the database as it was (up to the bookkeeping table), and a start that
    returns Ok has applied and recorded everything"""
    fails = []
    migs = h["out"]["migs"]
    before = run["before"]
    for n, inst in enumerate(run["instances"]):
        after = run["mids"][n] if n < len(run.get("mids", [])) else run["after"]
        r = inst["result"]
        injected = any(e.get("injected") for e in inst["log"])
        if not r or r["kind"] not in ("ok", "database_error"):
            fails.append({"clause": "ok-or-database-error", "start": n, "got": r})
        elif r["kind"] == "database_error":
            if not same_but_bookkeeping(before, after):
                fails.append({"clause": "a-start-that-returns-err-changes-nothing", "start": n, "fault_injected": injected,
                              "last_calls": [(e["k"], e["ok"], e["sql"][:70], (e.get("err") or "")[-60:]) for e in inst["log"]][-3:],
                              "rows_before": before["rows"], "rows_after": after["rows"], "catalog_equal": before["catalog"] == after["catalog"]})
        else:
            maxv = max([x[0] for x in before["rows"]], default=0)
            rows = [list(x) for x in before["rows"]] + [[m["version"], m["id"]] for m in migs if m["version"] > maxv]
            if after["rows"] != rows or (h["out"].get("full_catalog") is not None and after["catalog"] != h["out"]["full_catalog"]):
                fails.append({"clause": "a-start-that-returns-ok-is-complete", "start": n, "rows": after["rows"], "expected_rows": rows})
        before = after
    return {"ok": not fails, "fails": fails}


def oracle_crash(h, c):
    fails = []
    before, look, rerun = c["prep"]["before"], c["look"]["after"], c["rerun"]
    fake = {"before": before}
    pend, rows, cat = full_state(h, fake, legacy_rows(before))
    complete = look["rows"] == rows and look["catalog"] == cat
    if not complete and not same_but_bookkeeping(before, look):
        fails.append({"clause": "killed-run-changes-nothing", "before": before, "after_kill": look})
    r = rerun["instances"][0]["result"]
    if not r or r["kind"] != "ok" or rerun["after"]["rows"] != rows or rerun["after"]["catalog"] != cat:
        fails.append({"clause": "rerun-reaches-uninterrupted-final-state", "result": r, "got_rows": rerun["after"]["rows"]})
    return {"ok": not fails, "fails": fails}


def oracle_c11(h, run):
    """interleaved instances: nothing committed twice, losers get Err, after the retry the sequential result"""
    fails = []
    insts = run["instances"]
    pend, rows, cat = full_state(h, run, legacy_rows(run["before"]))
    writers = 0
    for pid, i in enumerate(insts):
        r = i["result"]
        if not r or r["kind"] not in ("ok", "database_error"):
            fails.append({"clause": "each-instance-ok-or-err", "pid": pid, "got": r})
            continue
        user, ins, failed = split_txn(i["log"])
        committed = any(e["k"] == "commit" and e["ok"] for e in i["log"])
        if committed and (user or ins):
            writers += 1
            if ins != [(m["version"], m["id"]) for m in pend]:
                fails.append({"clause": "a-committer-applied-exactly-the-pending-migrations", "pid": pid, "got": ins})
        if (r["kind"] == "ok") != (committed and not failed):
            fails.append({"clause": "result-matches-commit", "pid": pid, "result": r, "committed": committed})
    if writers > 1:
        fails.append({"clause": "at-most-one-writer-commits", "writers": writers})
    if run["after"]["rows"] != rows or run["after"]["catalog"] != cat:
        fails.append({"clause": "retry-converges-to-sequential-result", "expected_rows": rows, "got_rows": run["after"]["rows"],
                      "catalog_equal": run["after"]["catalog"] == cat})
    if len({r[0] for r in run["after"]["rows"]}) != len(run["after"]["rows"]):
        fails.append({"clause": "every-version-recorded-once"})
    return {"ok": not fails, "fails": fails}


# ------------------------------------------------------------------------------------------ known findings
def known_entries(prop):
    ks = [k for k in vflib.load_known() if k.get("property") == prop]
    for f in sorted(glob.glob(os.path.join(ROOT, "props", "known_%s*.proposed.json" % prop))):
        for k in json.load(open(f)).get("findings", []):
            if k.get("property") == prop and k["id"] not in {x["id"] for x in ks}:
                k = dict(k)
                k["proposed"] = True
                ks.append(k)
    return ks


# classifier name (Gallina boolean, evaluated inside Coq by `flag_code` in every shard) -> decoded flag
CLASSIFIERS = {"id_conflict": lambda hyp: bool(hyp and hyp.get("id_conflict")),
               "versions_beyond_i32": lambda hyp: bool(hyp) and not hyp.get("versions_lt_2_31"),
               "raw_script_ends_transaction": lambda hyp: bool(hyp and hyp.get("breaks_out"))}

FAMILY = {"C09": ("c09",), "C10": ("c10",), "C11": ("c11",)}
RULES = {
    "C09": "raw_sql statements whose meaning depends on their line structure (-- and /* */ comments, multi-line string literals, tabs, blank lines; corpus h11_multiline_sql and the thorough generator), statement texts compared byte for byte in both code shapes and the databases (catalog + table rows) of the verbose and the default run with each other; every history (corpus/mig + generated in thorough) x every start version k in 0..n x 4 option sets (plain / verbose / version_table / both), 2 consecutive starts each; legacy bookkeeping layout; fake PostgreSQL/MySQL backends; pre-seeded foreign ids and out-of-range versions. non-trivial = distinct (history, options, prepared database) with >= 1 pending migration",
    "C10": "fault injected at connection call j (quick: every j for the fresh database of each history + 2 random j per (k, options); thorough: every j everywhere), each followed by a clean re-run; process killed (abort) before call j and database re-opened by a new process; error values of seven classes/texts for the injected failure (neutral, three lock-contention texts, two duplicate-object texts, a connection error), rotated over the call-indexed faults; persistent faults keyed by statement (every execution of one pending statement fails) with each error value, then lifted and the run repeated; histories whose raw_sql scripts carry transaction control (BEGIN…COMMIT, BEGIN…END, BEGIN TRANSACTION…END TRANSACTION, bare COMMIT / END / ROLLBACK, SAVEPOINT…RELEASE; first / middle / last pending migration by start version; both code shapes; a fault at every call); natural engine refusals: an object (table / index / column) that a pending statement creates is created by hand before the run, at every position of the pending list where it is the first statement touching that object, for every start version k and both code shapes, then the obstacle is removed and the run repeated. non-trivial = distinct (history, options, k, j) where the fault/kill hits inside the transaction (j >= 3)",
    "C11": "2 or 3 instances on one SQLite file (busy_timeout 0) stepped by the scheduler, then one late retry instance; systematic + seeded random schedules (thorough: every interleaving of the transaction parts for <= 7 calls, every interleaving of the parts outside the transaction). non-trivial = distinct (history, options, k, effective schedule) in which >= 2 instances issued a call while another was unfinished",
}


def case_fingerprint(ds, run):
    return hashlib.sha1(json.dumps([ds["history"], run.get("variant"), run.get("backend"), run.get("init"), run.get("schedule"),
                                    [i.get("faults") for i in run.get("instances", [])], ds["tags"].get("j")], sort_keys=True, default=str).encode()).hexdigest()


def nontrivial(prop, ds, run, h):
    t = ds["tags"]
    if prop == "C09":
        maxv = max([r[0] for r in run["before"]["rows"]], default=0)
        return any(v > maxv for v in h["versions"])
    if prop == "C10":
        return t.get("j", 0) >= 3
    sched = run.get("schedule", [])
    return len({p for p in sched if p < t.get("ninst", 2)}) >= 2 and any(a != b for a, b in zip(sched, sched[1:]))


def sample_of(ds, run):
    return {"history": ds["history"], "run": ds["run"], "tags": ds["tags"], "init": run.get("init"), "schedule": run.get("schedule"),
            "results": [i.get("result", {}) and i["result"].get("kind") for i in run.get("instances", [])],
            "calls": [[(e["k"], e["ok"], e["sql"][:80]) for e in i["log"]] for i in run.get("instances", [])][:2],
            "rows_after": run.get("after", {}).get("rows")}


def history_files(hdir):
    out = {}
    for f in sorted(glob.glob(os.path.join(hdir, "**", "*"), recursive=True)):
        if os.path.isfile(f) and (f.endswith(".json") or f.endswith(".yaml") or f.endswith(".yml")):
            out[os.path.relpath(f, hdir)] = open(f).read()
    return out


def history_dir_of(name, tier, seed):
    for d in history_dirs_existing(tier, seed):
        if os.path.basename(d) == name:
            return d
    return None


def history_dirs_existing(tier, seed):
    dirs = sorted(d for d in glob.glob(os.path.join(CORPUS, "*")) if os.path.isdir(os.path.join(d, "migrations")))
    dirs += sorted(glob.glob(os.path.join(MIG, "gen", str(seed), "g*")))
    return dirs


def model_view_of(res, ds):
    """what the model computes for one case (for replay files): the shard's definitions + one Eval"""
    shard = os.path.join(res["dir"], "cases_mig_%03d.v" % ds["shard"])
    f = os.path.join(res["dir"], "view_%d_%d.v" % (ds["shard"], ds["local"]))
    body = [l for l in open(shard).read().split("\n") if not l.startswith("Eval ") and not l.startswith("Definition bad")]
    open(f, "w").write("\n".join(body) + "\nEval vm_compute in option_map model_view (nth_error cases %d).\n" % ds["local"])
    rc, out, _ = vflib.sh(["timeout", "600", "coqc", "-noglob"] + vflib.q_flags("mig") + [f], cwd=res["dir"], timeout=660)
    return out[-6000:]


SUBCHECK = {1: "result kinds", 2: "call logs", 3: "version table", 4: "catalog", 5: "model not finished after the schedule",
            6: "sequential run: results/logs", 7: "sequential run: database after each instance", 8: "crash: version table", 9: "crash: catalog"}


def mig_check(prop, tier, seed, assumptions):
    chk = vflib.Check(prop, tier, seed)
    chk.assumptions = assumptions
    chk.cov["trusted_base"] = vflib.TRUSTED_COMMON + [
        "hand-written tie (K-mig): harness_mig/migrt (proxy connection with inherent methods of the same names as sea-orm's ConnectionTrait/TransactionTrait, scheduler, fault injection, database preparation and observation, re-derivation of the baked-in SQL lists with build_plan_queries/apply_action/with_prefix), checks/migrun.py (Gallina printer, oracles)",
        "modelled, not verified: SQLite beyond the lock rules of Model/Sqlite.v (rollback-journal mode, busy_timeout 0, no cache spill to EXCLUSIVE), user statements are opaque and assumed to succeed unless a fault is injected; sqlx/sea-orm pooling (one connection per instance), tokio scheduling replaced by the harness scheduler",
        "engine catalogs come from the real engine: the model only predicts WHICH statement list is committed; the catalog of a statement list is read from libsqlite3 by direct execution",
    ]
    with MigLock():      # the three mig checks share coq/mig: never two `make` at once
        vflib.proof_stage(chk, "mig", prop)
    res = run_mig(tier, seed)
    if "build_error" in res or "coq_error" in res:
        rp = vflib.write_replay(prop, "correspondence:build", {"log": res.get("build_error") or res.get("coq_error")})
        chk.violation(rp, True)
        return chk.finish()
    hist = {h["name"]: h for h in res["histories"]}
    rejected = []
    for h in res["histories"]:
        if h.get("error"):
            if h["name"].startswith("g") and not h["name"].startswith("gs"):
                rejected.append({"history": h["name"], "stage": h["error"].get("stage")})
            else:
                rp = vflib.write_replay(prop, "correspondence:K-mig-harness", {"history": h["name"], "error": h["error"], "tier": tier, "seed": seed})
                chk.violation(rp, True)
    runs_by = {}
    for h in res["histories"]:
        h["_by_name"] = {r["name"]: r for r in h.get("runs", [])}
        for r in h.get("runs", []):
            runs_by[(h["name"], r["name"])] = r
        for c in h.get("crashes", []):
            runs_by[(h["name"], "crash_k%d_j%d" % (c["k"], c["j"]))] = c
    mine = [ds for ds in res["cases"] if ds["tags"].get("family") in FAMILY[prop]]
    base = [ds for ds in res["cases"] if ds["tags"].get("family") == "c09" and ds["tags"].get("kind") == "base"]
    corr_cases = mine if prop == "C09" else mine + base
    chk.cov["evaluations"] = len(mine)
    chk.cov["rule"] = RULES[prop]
    chk.cov["cached_run"] = res.get("cached", False)
    chk.cov["traces_validated_against_impl"] = len(corr_cases)
    # ---- correspondence
    bad = [ds for ds in corr_cases if ds["mismatch"]]
    chk.cov["correspondences"] = {"K-mig": {"cases": len(corr_cases), "mismatches": len(bad),
                                            "compared": "per-instance call log (kind, SQL text, success), result kind, version-table rows, final catalog; inside Coq"}}
    # ---- oracle
    known = [k for k in known_entries(prop) if k.get("status") == "open"]
    failing, seen, nontriv, samples, dist = [], set(), set(), [], {}
    for ds in mine:
        h = hist[ds["history"]]
        run = runs_by[(ds["history"], ds["run"])]
        kind = ds["tags"].get("kind")
        dist[kind] = dist.get(kind, 0) + 1
        if kind == "crash":
            o = oracle_crash(h, run)
            fp = hashlib.sha1(json.dumps([ds["history"], ds["run"]]).encode()).hexdigest()
            if ds["tags"].get("j", 0) >= 3:
                nontriv.add(fp)
        else:
            o = oracle_script(h, run) if kind == "script" else oracle_persistent(h, run) if kind == "persistent" else oracle_obstacle(h, run) if kind == "obstacle" else {"C09": oracle_c09, "C10": oracle_c10, "C11": oracle_c11}[prop](h, run)
            fp = case_fingerprint(ds, run)
            if nontrivial(prop, ds, run, h):
                nontriv.add(fp)
            if len(samples) < 3 and fp not in seen and nontrivial(prop, ds, run, h) and (len(samples) == 0 or ds["history"] != samples[-1]["history"]):
                samples.append(sample_of(ds, run))
        seen.add(fp)
        if o is not None and not o["ok"]:
            failing.append((ds, run, o))
    chk.cov["distinct_nontrivial"] = len(nontriv)
    chk.cov["samples"] = samples or [{"history": ds["history"], "run": ds["run"]} for ds in mine[:1]]
    chk.cov["distribution"] = {"kinds": dist, "histories": {h["name"]: {"migrations": h["n_migs"], "build_s": h.get("build_s"), "binary_cached": h.get("build_cached")}
                                                               for h in res["histories"]}, "rejected_generated_histories": rejected,
                               "kmig_wall_s": res.get("wall_s")}
    hyp_all = sum(1 for ds in mine if ds.get("hyp") and ds["hyp"]["ascending"] and ds["hyp"]["versions_u32"] and ds["hyp"]["at_version"] and not ds["hyp"]["id_conflict"] and not ds["hyp"].get("has_ctl"))
    covered, unexplained = {}, []
    for (ds, run, o) in failing:
        hit = None
        for k in known:
            f = CLASSIFIERS.get(k.get("classifier"))
            if f and f(ds.get("hyp")):
                hit = k
                break
        if hit:
            covered[hit["id"]] = covered.get(hit["id"], 0) + 1
        else:
            unexplained.append((ds, run, o))
    for k in known:
        wit = k.get("witness", "")
        wname = os.path.basename(os.path.dirname(wit)) if wit.endswith(".json") else os.path.basename(wit.rstrip("/"))
        still = [1 for (ds, run, o) in failing if ds["history"] == wname]
        if covered.get(k["id"]) or still:
            chk.known_finding(k["id"], k["what"])
        else:
            chk.notes.append("NOTE stale known finding %s: its witness no longer fails" % k["id"])
    chk.cov["theorem_coverage"] = {"cases_under_all_hypotheses(ascending, versions_u32, at_version, no id_conflict, no transaction control in statements)": hyp_all, "cases": len(mine),
                                   "oracle_failures": len(failing), "classified_known": covered, "unexplained": len(unexplained)}
    for (ds, run, o) in unexplained[:5]:
        hd = history_dir_of(ds["history"], tier, seed)
        rp = vflib.write_replay(prop, "oracle", {"tier": tier, "seed": seed, "history": ds["history"], "history_files": history_files(hd) if hd else None,
                                                 "run": {k: v for k, v in run.items() if k in ("name", "variant", "backend", "init", "schedule", "tags", "k", "j", "between")},
                                                 "faults": [i.get("faults") for i in run.get("instances", [])] if isinstance(run.get("instances"), list) else None,
                                                 "instance_specs": [{k: i.get(k) for k in ("sfaults", "fault_class", "fault_text") if i.get(k)} for i in run.get("instances", [])] if isinstance(run.get("instances"), list) else None,
                                                 "oracle": o, "hypotheses": ds.get("hyp"), "replay_cmd": "./vf replay %s <this file>" % prop})
        chk.violation(rp)
    if (bad or res["shard_errors"]) and not unexplained:
        payload = {"tier": tier, "seed": seed, "broken": "K-mig", "shard_errors": res["shard_errors"][:2]}
        if bad:
            ds = bad[0]
            run = runs_by[(ds["history"], ds["run"])]
            hd = history_dir_of(ds["history"], tier, seed)
            payload.update({"first_differing_case": {"history": ds["history"], "run": ds["run"], "tags": ds["tags"]},
                            "subchecks": [SUBCHECK.get(x, str(x)) for x in ds["mismatch"]],
                            "history_files": history_files(hd) if hd else None, "implementation": run, "model": model_view_of(res, ds),
                            "differing_cases": len(bad)})
        rp = vflib.write_replay(prop, "correspondence:K-mig", payload)
        chk.violation(rp, True)
    return chk.finish()


def mig_replay(prop, path):
    """Re-run the stored run on the real generated code (history rebuilt from the replay file) and re-apply the oracle."""
    rp = json.load(open(path))
    files = rp.get("history_files")
    if not files:
        print("replay file carries no input (%s)" % rp.get("kind"))
        print(json.dumps(rp, indent=1)[:3000])
        print("VIOLATION property=%s replay=%s no-failing-input-found" % (prop, path))
        return 1
    hd = os.path.join(MIG, "replay", hashlib.sha1(json.dumps(files, sort_keys=True).encode()).hexdigest()[:12], rp.get("history", "h"))
    shutil.rmtree(hd, ignore_errors=True)
    for rel, txt in files.items():
        os.makedirs(os.path.dirname(os.path.join(hd, rel)) or hd, exist_ok=True)
        open(os.path.join(hd, rel), "w").write(txt)
    os.makedirs(os.path.join(hd, "models"), exist_ok=True)
    vflib.build_harness("migrt", ws="harness_mig")
    with MigLock():
        binp, log, dt, cached, key = build_case(hd)
    if binp is None:
        print("case crate does not compile:\n" + log[-2000:])
        print("VIOLATION property=%s replay=%s" % (prop, path))
        return 1
    h = read_history(hd)
    src = rp.get("run") or (rp.get("implementation") or {})
    tags = src.get("tags") or {}
    wd = os.path.join(MIG, "replay", "work")
    shutil.rmtree(wd, ignore_errors=True)
    if tags.get("kind") == "crash" or "prep" in src:
        out0, rc0, err0 = run_bin(binp, {"work": wd, "project": hd, "runs": []}, "replay0")
        c = crash_case(binp, hd, wd, src.get("k", 0), src.get("j", 0), "replay")
        if out0 is None or "error" in c:
            print("harness failed: %s %s" % (err0, c.get("error")))
            return 1
        o = oracle_crash({"out": {"migs": out0["migs"], "refcats": out0["refcats"]}, "versions": h["versions"]}, c)
        print(json.dumps({"killed_before_call": c["j"], "process_died": c["died"], "after_kill": c["look"]["after"], "oracle": o}, indent=1)[:4000])
        if not o["ok"]:
            print("VIOLATION property=%s replay=%s" % (prop, path))
            return 1
        print("replay: the oracle holds on this input now")
        return 0
    faults = rp.get("faults") or [i.get("faults") for i in (rp.get("implementation") or {}).get("instances", [])] or [[]]
    extra = rp.get("instance_specs") or []
    spec = {"name": "replay", "variant": src.get("variant", 0), "backend": src.get("backend", "sqlite"), "init": {k: v for k, v in (src.get("init") or {}).items() if k in ("k", "vt", "rows", "obstacles")},
            "instances": [dict({"faults": f or []}, **(extra[n] if n < len(extra) else {})) for n, f in enumerate(faults)], "schedule": src.get("schedule") or [], "tags": tags}
    if src.get("between"):
        spec["between"] = src["between"]
    if tags.get("kind") == "script":
        spec["init"]["stmts"] = (src.get("init") or {}).get("applied") or []
    if tags.get("family") == "c11":
        spec["late"] = [tags.get("ninst", 2)]
    else:
        spec["mode"] = "sequential"
    out, rc, err = run_bin(binp, {"work": wd, "project": hd, "runs": [spec]}, "replay")
    if out is None or "harness_error" in out["runs"][0]:
        print("harness failed: %s %s" % (err, out and out["runs"][0].get("harness_error")))
        return 1
    hh = {"out": {"migs": out["migs"], "refcats": out["refcats"]}, "versions": h["versions"]}
    run = out["runs"][0]
    hh["out"]["full_catalog"] = (out.get("refcats_extra") or [{}])[-1].get("catalog")
    o = oracle_script(hh, run) if tags.get("kind") == "script" else oracle_persistent(hh, run) if tags.get("kind") == "persistent" else oracle_obstacle(hh, run) if tags.get("kind") == "obstacle" else {"C09": oracle_c09, "C10": oracle_c10, "C11": oracle_c11}[prop](hh, run)
    print(json.dumps({"results": [i["result"] for i in run["instances"]], "oracle": o}, indent=1)[:4000])
    if o is not None and not o["ok"]:
        print("VIOLATION property=%s replay=%s" % (prop, path))
        return 1
    print("replay: the oracle holds on this input now")
    return 0


# ------------------------------------------------------------------------------------------ C14 at runtime level
PREFIX_TWINS = [("h2_prefix", "h2_noprefix")]


def _unprefix(text, prefix, names):
    """undo the literal prefix on every known table name (longest first), also inside derived index / constraint names"""
    for nm in sorted(names, key=len, reverse=True):
        text = text.replace(prefix + nm, nm)
    return text


def c14_part(tier, seed):
    """C14 for the runtime migrator: a history run with a table prefix must leave exactly the database of the same
    history run without prefix, every table — the version table included — renamed to prefix + name and nothing
    else changed (columns, indexes modulo the prefix inside derived names, version rows).  Reuses the K-mig runs."""
    res = run_mig(tier, seed)
    details = {"pairs": [], "compared": 0}
    if "histories" not in res:
        return {"ok": False, "details": {"error": (res.get("build_error") or res.get("coq_error") or "")[-1500:]}, "failing_input": None}
    hist = {h["name"]: h for h in res["histories"]}
    failing = None
    for with_p, without_p in PREFIX_TWINS:
        hp, hn = hist.get(with_p), hist.get(without_p)
        if not hp or not hn or hp.get("error") or hn.get("error"):
            details["pairs"].append({"pair": [with_p, without_p], "error": "history missing or failed: %s / %s" % (hp and hp.get("error"), hn and hn.get("error"))})
            failing = failing or {"history": with_p, "options": None, "why": "K-mig did not run for the pair"}
            continue
        prefix = hp["out"]["prefix"]
        runs_n = {r["name"]: r for r in hn["runs"]}
        n_ok = 0
        for rp in hp["runs"]:
            tags = rp.get("tags") or {}
            if tags.get("kind") not in ("base", "legacy") or rp.get("dry"):
                continue
            rn = runs_n.get(rp["name"])
            if rn is None:
                continue
            details["compared"] += 1
            cat_n = json.loads(rn["after"]["catalog"])
            cat_p = json.loads(rp["after"]["catalog"])
            tables_n = sorted(e[1] for e in cat_n if e[0] == "table")
            tables_p = sorted(e[1] for e in cat_p if e[0] == "table")
            problems = []
            if not prefix:
                problems.append("the prefixed twin has no prefix")
            if tables_p != sorted(prefix + t for t in tables_n):
                problems.append({"user_tables": tables_p, "expected": sorted(prefix + t for t in tables_n)})
            # the version table: found by the harness under prefix + name, same layout and rows
            if rp["vt"] != prefix + rn["vt"] or rp["after"]["vt_exists"] != rn["after"]["vt_exists"] or not rp["after"]["vt_exists"]:
                problems.append({"version_table": {"expected_name": prefix + rn["vt"], "exists_under_that_name": rp["after"]["vt_exists"]}})
            if rp["after"]["vt_has_id"] != rn["after"]["vt_has_id"] or rp["after"]["rows"] != rn["after"]["rows"]:
                problems.append({"version_rows": rp["after"]["rows"], "expected": rn["after"]["rows"]})
            # nothing else: every catalog entry equal once the prefix is removed from the known table names
            names = tables_n + [rn["vt"]]
            norm_p = sorted([[e[0]] + [_unprefix(x, prefix, names) if isinstance(x, str) else x for x in e[1:]] for e in cat_p])
            if norm_p != sorted(cat_n):
                problems.append({"catalog_differs_beyond_the_prefix": [e for e in norm_p if e not in cat_n][:3], "missing": [e for e in cat_n if e not in norm_p][:3]})
            # the bookkeeping statements name prefix + table
            for ip, inn in zip(rp["instances"], rn["instances"]):
                sp = [_unprefix(e["sql"], prefix, names) for e in ip["log"]]
                sn = [e["sql"] for e in inn["log"]]
                if sp != sn or [e["ok"] for e in ip["log"]] != [e["ok"] for e in inn["log"]] or (ip["result"] or {}).get("kind") != (inn["result"] or {}).get("kind"):
                    problems.append({"call_log_differs_beyond_the_prefix": [a for a, b in zip(sp, sn) if a != b][:2]})
            if problems:
                if failing is None:
                    failing = {"history": with_p, "twin": without_p, "prefix": prefix, "run": rp["name"],
                               "options": {"variant": rp["variant"], "macro_options": VARIANTS[rp["variant"]], "init": rp["init"]},
                               "problems": problems, "history_files": history_files(os.path.join(CORPUS, with_p))}
                details.setdefault("failures", []).append({"run": rp["name"], "variant": rp["variant"], "problems": problems[:2]})
            else:
                n_ok += 1
        details["pairs"].append({"pair": [with_p, without_p], "prefix": prefix, "runs_equal_up_to_prefix": n_ok})
    ok = failing is None and details["compared"] > 0
    return {"ok": ok, "details": details, "failing_input": failing}
