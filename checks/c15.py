"""C15 — shipped JSON Schemas and the parser accept the same documents."""
import glob, json, os, re, shutil, subprocess
from concurrent.futures import ThreadPoolExecutor
import vflib, serderun
from vflib import ROOT, CACHE

PROP = "C15"
LAYER = "serde"
GEN = os.path.join(ROOT, "coq", LAYER, "Gen")
PY_VT = "/usr/local/bin/python3-vt"
SHIPPED = "/repo/schemas"
REPO_MANIFEST = "/repo/Cargo.toml"
TARGET_REPO = os.path.join(CACHE, "target_repo")
KINDS = {"table": ("model", "DTable"), "plan": ("migration", "DPlan"), "config": ("config", "DConfig")}
RULE = ("12 real-binary projects (init / new [--format] / revision under all modelFormat x override combinations); the K-serde documents (see C12: tool-written TableDef / MigrationPlan / VespertideConfig documents in struct order and in the "
        "to_value+$schema file form, mutated documents, quirk probes) + schema-guided mutants of tool-written documents that stay valid under "
        "the shipped schema (optional members dropped / nulled, boundary integers, other anyOf branches, extra members), parsed by the real "
        "serde through `hserde parse`; non-trivial & distinct = distinct document text exercising >=1 optional/union member or >=2 actions, "
        "distinct mutated documents")
ASSUME = [
    "shipped schemas = /repo/schemas/*.json; generated schemas = output of /repo's vespertide-schema-gen built from the current working tree (cargo --frozen, target dir .cache/target_repo), both translated by tools/schema2coq.py (syntactic, trusted; unknown keywords make it fail)",
    "the validation relation `valid` (coq/serde/Model/SchemaOf.v) is tied to python-jsonschema 4.26 Draft2020-12 on every document of every run (K-schema, compared inside Coq)",
    "proved for ALL values / documents (no sampling): valid_encode_* (what the serialisers write validates), decode_of_valid_table / _plan (a document without repeated members that validates under the strict reading of the schema - `format` asserted as the Rust width of the field, 'integer' excluding 1.0: the complement of the class C15-integer-width-not-in-schema, Model/SchemaStrict.v - is accepted by the parser model), both transported to the shipped schema terms on every run through doc_eqb_eq; fuel irrelevance of the validator; the class refutations. The strict reading itself has no external reference implementation (python-jsonschema does not know uint32): K-schema ties the plain validator, the strict one differs by two stated clauses",
    "JSON / YAML *text* layer: not modelled in Gallina (Json.v starts at parsed values); it is tied by test only: the K-serde text round trips, and the real-binary text-layer stream (.json model / migration files with surrogate-pair escapes, \\u0000-class escapes, raw DEL / C1 / U+2028, \\/ and numeric defaults at the i64 / u64 / f64 boundaries, written with ensure_ascii on and off) where the binary must accept a file iff python-jsonschema accepts it and the Gallina parser model decodes it (hserde's own serde_json / serde_yaml parses of the same text are recorded as observations only: they are built from the same crates as the binary)",
    "real-binary stream: `vespertide init`, `new [--format]` under every modelFormat and `revision` under every migrationFormat; YAML files are read back with the tool's own serde_yaml (hserde parse yaml2json) before schema validation; the empty `new` template is completed with an id primary-key column before the load test",
    "documents that repeat a member are outside the quantifier of 'schema-valid documents' (a validator sees the parsed map, the parser sees the text)",
    "the parser side is the K-serde model of C12 (see its assumptions: YAML text layer not modelled, integer literals in [2^63,2^64) at DefaultValue positions excluded)",
]


def coqc(f, extra=(), cwd=None, timeout=900):
    return vflib.sh(["timeout", str(timeout), "coqc", "-noglob"] + vflib.q_flags(LAYER) + ["-Q", GEN, vflib.logical(LAYER)] + list(extra) + [f],
                    cwd=cwd or GEN, timeout=timeout + 30)


def known_entries():
    ents = {k["id"]: k for k in vflib.load_known() if k.get("property") == PROP}
    p = os.path.join(ROOT, "props", "known_%s.proposed.json" % PROP)
    if os.path.exists(p):
        for k in json.load(open(p)).get("findings", []):
            ents.setdefault(k["id"], k)
    return list(ents.values())


def regenerate():
    """build the real schema generator from the current tree, run it, translate shipped + generated"""
    env = dict(vflib.ENV)
    env["CARGO_TARGET_DIR"] = TARGET_REPO
    env.pop("RUSTFLAGS", None)
    rc, out, _ = vflib.sh(["cargo", "build", "--frozen", "-p", "vespertide-schema-gen", "--manifest-path", REPO_MANIFEST], env=env, timeout=1800)
    if rc != 0:
        return None, "cargo build of vespertide-schema-gen failed: " + out[-2000:]
    gd = os.path.join(CACHE, "serde_gen_schemas")
    shutil.rmtree(gd, ignore_errors=True)
    os.makedirs(gd)
    rc, out, _ = vflib.sh([os.path.join(TARGET_REPO, "debug", "vespertide-schema-gen"), "--out", gd], timeout=120)
    if rc != 0:
        return None, "vespertide-schema-gen failed: " + out[-2000:]
    shutil.rmtree(GEN, ignore_errors=True)
    os.makedirs(GEN)
    for stem, d in (("Shipped", SHIPPED), ("Generated", gd)):
        args = ["%s_%s=%s/%s.schema.json" % (stem, x, d, x) for x in ("model", "migration", "config")]
        rc, out, _ = vflib.sh(["python3", os.path.join(ROOT, "tools", "schema2coq.py"), os.path.join(GEN, stem + "Schemas.v")] + args)
        if rc != 0:
            return None, "schema2coq (%s): %s" % (stem, out[-1500:])
        rc, out, _ = coqc(os.path.join(GEN, stem + "Schemas.v"))
        if rc != 0:
            return None, "coqc %sSchemas.v: %s" % (stem, out[-1500:])
    return gd, None


def schema_theorems(chk, known):
    """instantiate Properties/C15Schemas.v.in according to the known findings, compile, return
    (current: {x: bool}, diffs: {x: [..]}, generated_is_schema_of: {x: bool}, compiled_ok, n_obligations)"""
    tmpl = open(os.path.join(ROOT, "coq", LAYER, "Properties", "C15Schemas.v.in")).read()
    if vflib.FORBIDDEN.search(re.sub(r"\(\*.*?\*\)", "", tmpl, flags=re.S)):
        return None
    # first the three booleans and the differences alone (this file always compiles)
    head = tmpl.split("Theorem shipped_is_current_model")[0]
    open(os.path.join(GEN, "C15Eval.v"), "w").write(head)
    rc, out, _ = coqc(os.path.join(GEN, "C15Eval.v"))
    if rc != 0:
        return {"error": out[-1500:]}
    bl = vflib.parse_eval_outputs(out)
    cur = vflib.parse_bool_list(bl[0])
    diffs = [re.findall(r'"((?:[^"]|"")*)"', x) for x in split_top(bl[1])]
    gso = vflib.parse_bool_list(bl[2])
    names = ["model", "migration", "config"]
    current = dict(zip(names, cur))
    diff = dict(zip(names, diffs))
    body = tmpl
    open(os.path.join(GEN, "C15Schemas.v"), "w").write(body)
    rc, out, _ = coqc(os.path.join(GEN, "C15Schemas.v"))
    pins = re.findall(r"^Check\s+(\w+)\s*:", body, flags=re.M)
    closed = len(re.findall(r"Closed under the global context", out))
    return {"current": current, "diff": diff, "generated_is_schema_of": dict(zip(names, gso)), "compiled": rc == 0, "pins": pins,
            "closed": closed, "log": out[-1500:]}


def split_top(term):
    """split '(a, b, c)' at top-level commas"""
    t = term.strip()
    if t.startswith("(") and t.endswith(")"):
        t = t[1:-1]
    parts, depth, cur, instr = [], 0, "", False
    for ch in t:
        if ch == '"':
            instr = not instr
        if not instr:
            if ch in "([":
                depth += 1
            elif ch in ")]":
                depth -= 1
            elif ch == "," and depth == 0:
                parts.append(cur)
                cur = ""
                continue
        cur += ch
    parts.append(cur)
    return parts


SH_GN = ("Definition sh (k : dkind) := match k with DTable => Shipped_model | DPlan => Shipped_migration | DConfig => Shipped_config end.\n"
         "Definition gn (k : dkind) := match k with DTable => Generated_model | DPlan => Generated_migration | DConfig => Generated_config end.\n")


def schema_shards(res, verdicts, mutants):
    """K-schema inside Coq: the model's verdict on every document against python-jsonschema's; class bits"""
    d = res["dir"]
    meta = res["meta"]
    per = meta["per_shard"]
    idx_map = meta["idx_map"]
    files = []
    for si, name in enumerate(meta["shards"]):
        src = open(os.path.join(d, name)).read()
        src = src.split("Definition bad :=")[0].replace("From VV.SERDE Require Import CorrSerde.", "From VV.SERDE Require Import CorrSchema ShippedSchemas GeneratedSchemas.")
        exp = []
        for k in range(si * per, min((si + 1) * per, len(idx_map))):
            vd = verdicts[idx_map[k]]
            exp.append("[" + "; ".join("(%s, %s)" % (str(e["shipped"]).lower(), str(e["generated"]).lower()) for e in (vd or [])) + "]")
        src += SH_GN + "Definition expect : list (list (bool * bool)) := [\n" + ";\n".join(exp) + "\n].\n"
        src += "Eval vm_compute in schema_mismatches sh gn shard_base cases expect.\nEval vm_compute in unbounded_bits cases.\nEval vm_compute in cov_cases sh cases.\n"
        f = os.path.join(d, "schema_%03d.v" % si)
        open(f, "w").write(src)
        files.append(f)
    mfiles = []
    for mi in range(0, len(mutants), 100):
        chunk = mutants[mi:mi + 100]
        src = "From VV.SERDE Require Import CorrSchema ShippedSchemas GeneratedSchemas.\n" + SH_GN
        src += "Definition docs : list (dkind * json) := [\n" + ";\n".join("(%s, %s)" % (KINDS[m["kind"]][1], m["gallina"]) for m in chunk) + "\n].\n"
        src += "Eval vm_compute in map (doc_bits sh) docs.\nEval vm_compute in map (cov_bits sh) docs.\n"
        f = os.path.join(d, "mutants_%03d.v" % (mi // 100))
        open(f, "w").write(src)
        mfiles.append(f)

    def one(f):
        rc, out, _ = coqc(f, cwd=d)
        return f, rc, out
    with ThreadPoolExecutor(max_workers=16) as ex:
        r1 = list(ex.map(one, files))
        r2 = list(ex.map(one, mfiles))
    mism, unb, errors = [], {}, []
    cov, mcov = {}, []

    def nested(term):
        try:
            return json.loads(term.replace(";", ","))
        except Exception:
            return None
    for si, (f, rc, out) in enumerate(r1):
        if rc != 0:
            errors.append({"shard": os.path.basename(f), "log": out[-1200:]})
            continue
        bl = vflib.parse_eval_outputs(out)
        mism += [idx_map[i] for i in vflib.parse_nat_list(bl[0])]
        rows_bits = re.findall(r"\[((?:\s*(?:true|false)\s*;?)*)\]", bl[1][1:-1] if bl[1].startswith("[") else bl[1])
        for k, bits in enumerate(rows_bits):
            gi = si * per + k
            if gi < len(idx_map):
                unb[idx_map[gi]] = [x == "true" for x in re.findall(r"true|false", bits)]
        cv = nested(bl[2]) if len(bl) > 2 else None
        if cv is None:
            errors.append({"shard": os.path.basename(f), "log": "coverage bits not parsed"})
        else:
            for k, docs in enumerate(cv):
                gi = si * per + k
                if gi < len(idx_map):
                    cov[idx_map[gi]] = docs
    mbits = []
    for f, rc, out in r2:
        if rc != 0:
            errors.append({"shard": os.path.basename(f), "log": out[-1200:]})
            continue
        bl = vflib.parse_eval_outputs(out)
        for bits in re.findall(r"\[((?:\s*(?:true|false)\s*;?)+)\]", bl[0]):
            mbits.append([x == "true" for x in re.findall(r"true|false", bits)])
        mcov += nested(bl[1]) or [] if len(bl) > 1 else []
    return mism, unb, mbits, errors, cov, mcov


def run(tier, seed):
    chk = vflib.Check(PROP, tier, seed)
    chk.assumptions = ASSUME
    chk.cov["trusted_base"] = vflib.TRUSTED_COMMON + [
        "tools/schema2coq.py (syntactic translator of JSON Schema files into Gallina terms), tools/schema_oracle.py + python-jsonschema 4.26 (reference validator)",
        "modelled, not verified: serde_json text parsing; f64 printing"]
    vflib.proof_stage(chk, LAYER, PROP)
    known = known_entries()
    gd, err = regenerate()
    if err:
        rp = vflib.write_replay(PROP, "theorem:regenerate-schemas", {"log": err})
        chk.violation(rp, True)
        return chk.finish()
    st = schema_theorems(chk, known)
    if st is None or "error" in st:
        rp = vflib.write_replay(PROP, "theorem:C15Schemas", {"log": (st or {}).get("error", "forbidden construct in C15Schemas.v.in")})
        chk.violation(rp, True)
        return chk.finish()
    # ---- obligations about the regenerated schema terms
    chk.cov["obligations"] += len(st["pins"])
    chk.cov["discharged"] += len(st["pins"]) if st["compiled"] else 0
    chk.cov["theorems"] = chk.cov.get("theorems", []) + st["pins"]
    chk.cov["closed_under_global_context"] = chk.cov.get("closed_under_global_context", 0) + st["closed"]
    chk.cov["checker_cmd"] += " && tools/schema2coq.py (shipped + regenerated) && coqc coq/serde/Gen/C15Schemas.v (instantiated from Properties/C15Schemas.v.in)"
    chk.cov["schemas"] = {"shipped_equals_generated": st["current"], "difference": st["diff"], "generated_is_schema_of": st["generated_is_schema_of"]}
    drift = [x for x, is_cur in st["current"].items() if not is_cur]      # a stale shipped schema is a violation
    for x in drift:
        rp = vflib.write_replay(PROP, "theorem:shipped_is_current_%s" % x, {
            "shipped": "%s/%s.schema.json" % (SHIPPED, x), "regenerated_by": "cargo run -p vespertide-schema-gen -- --out <dir>",
            "difference (shipped -> regenerated; + added, - removed, ~ changed)": st["diff"][x],
            "text_diff": text_diff("%s/%s.schema.json" % (SHIPPED, x), os.path.join(gd, "%s.schema.json" % x)),
            "replay_cmd": "./vf replay %s <this file>" % PROP})
        chk.violation(rp, True)
    for x, okx in st["generated_is_schema_of"].items():
        if not okx:
            rp = vflib.write_replay(PROP, "theorem:generated_is_schema_of_%s" % x, {
                "note": "the schema schemars derives from the current types differs from coq/serde/Model/SchemaOfTypes.v (the types or schemars changed)",
                "text_diff_vs_shipped": text_diff("/repo/schemas/%s.schema.json" % x, os.path.join(gd, "%s.schema.json" % x))})
            chk.violation(rp, True)
    if not st["compiled"] and not drift and all(st["generated_is_schema_of"].values()):
        rp = vflib.write_replay(PROP, "theorem:C15Schemas", {"log": st["log"]})
        chk.violation(rp, True)

    # ---- documents
    res = serderun.run_serde(tier, seed)
    if "build_error" in res or "coq_error" in res:
        rp = vflib.write_replay(PROP, "correspondence:build", {"log": res.get("build_error") or res.get("coq_error")})
        chk.violation(rp, True)
        return chk.finish()
    rows = res["rows"]
    binp = os.path.join(vflib.TARGET, "debug", "hserde")
    vfile = os.path.join(res["dir"], "verdicts.json")
    nm = 1500 if tier == "thorough" else 250
    p = subprocess.run([PY_VT, os.path.join(ROOT, "tools", "schema_oracle.py"), "--cases", os.path.join(res["dir"], "cases.jsonl"),
                        "--shipped", SHIPPED, "--generated", gd, "--out", vfile, "--parse-bin", binp, "--seed", str(seed), "--mutants", str(nm)],
                       capture_output=True, text=True)
    if p.returncode != 0:
        rp = vflib.write_replay(PROP, "correspondence:schema-oracle", {"log": (p.stdout + p.stderr)[-2000:]})
        chk.violation(rp, True)
        return chk.finish()
    vj = json.load(open(vfile))
    verdicts, mutants = vj["verdicts"], vj["mutants"]
    mism, unb, mbits, errors, cov, mcov = schema_shards(res, verdicts, mutants)
    ndocs = sum(len(v) for v in verdicts if v)
    chk.cov["evaluations"] = ndocs + len(mutants)
    chk.cov["distinct_nontrivial"] = serderun.nontrivial(rows) + len({m["text"] for m in mutants})
    chk.cov["rule"] = RULE
    chk.cov["distribution"] = serderun.distribution(rows)
    import collections
    chk.cov["distribution"]["schema_guided_mutants"] = dict(collections.Counter(m["label"].split(":")[0] for m in mutants))
    chk.cov["traces_validated_against_impl"] = ndocs + len(mutants)
    chk.cov["cached_run"] = res.get("cached", False)
    serde_mism = {i: s for i, s in res["mismatches"].items() if any(x in (1, 2, 3, 4, 5) for x in s)}
    mut_model_mism = [k for k, (m, b) in enumerate(zip(mutants, mbits)) if b[0] != m["serde_ok"] or not b[2]] if len(mbits) == len(mutants) else list(range(len(mutants)))
    chk.cov["correspondences"] = {
        "K-schema(valid vs python-jsonschema, shipped and regenerated schemas)": {"cases": ndocs, "mismatches": len(mism)},
        "K-serde(encode/decode, see C12)": {"cases": sum(1 for r in rows if r.get("kind", "")[:3] in ("rt_", "mut")), "mismatches": len(serde_mism)},
        "K-serde+K-schema on schema-guided mutants (decode vs hserde parse; valid = true)": {"cases": len(mutants), "mismatches": len(mut_model_mism)}}

    # ---- oracle on the implementation
    width_ent = next((k for k in known if k.get("status") == "open" and k.get("classifier") == "known_C15_unbounded"), None)
    failures, counts = [], collections.Counter()
    for i, (r, vd) in enumerate(zip(rows, verdicts)):
        if not vd:
            continue
        k = r["kind"]
        if k.startswith("rt_"):
            for di, e in enumerate(vd):
                if not e["shipped"]:
                    failures.append(("written document does not validate against the shipped schema", i, e.get("errors")))
                und = set(e.get("undeclared", []))
                if und:
                    failures.append(("written document has members the shipped schema does not declare: %s" % sorted(und), i, None))
        elif k.startswith("mut_") and vd[0]["shipped"] and not r.get("serde_ok"):
            if r.get("has_dup"):
                counts["out-of-scope:repeated-member"] += 1
            elif width_ent and unb.get(i) and unb[i][0]:
                counts[width_ent["id"]] += 1
            else:
                failures.append(("schema-valid document rejected by the parser: %s" % r.get("serde_err"), i, None))
    mfail = []
    for k, m in enumerate(mutants):
        if m["serde_ok"]:
            continue
        b = mbits[k] if k < len(mbits) else None
        if width_ent and b and b[1]:
            counts[width_ent["id"]] += 1
        else:
            mfail.append(m)
    # stored witnesses of the open findings must still fail on the implementation
    for ent in (width_ent,):
        if not ent:
            continue
        w = json.load(open(os.path.join(ROOT, ent["witness"])))
        pr = subprocess.run([binp, "parse"], input=json.dumps({"kind": w["kind"], "text": w["doc_text"]}) + "\n", capture_output=True, text=True)
        still = '"ok":false' in pr.stdout.replace(" ", "")
        if still or counts[ent["id"]]:
            chk.known_finding(ent["id"], ent["what"])
        else:
            chk.notes.append("NOTE stale known finding %s: its witness is now parsed" % ent["id"])
    chk.cov["theorem_coverage"] = {"oracle_failures_classified": dict(counts), "unexplained": len(failures) + len(mfail),
                                   "schema_valid_mutants_parsed": sum(1 for m in mutants if m["serde_ok"]), "schema_valid_mutants": len(mutants),
                                   "written_documents_valid_under_shipped": sum(1 for r, vd in zip(rows, verdicts) if vd and r["kind"].startswith("rt_") and all(e["shipped"] for e in vd)),
                                   "written_documents": sum(1 for r, vd in zip(rows, verdicts) if vd and r["kind"].startswith("rt_"))}
    # ---- how many documents fall under the hypotheses of the two directions proved for all documents
    def tally(triples):
        t = {"documents": len(triples), "schema_valid": 0, "under_decode_of_valid (no repeated member, strictly valid)": 0,
             "of_those_accepted_by_the_parser_model": 0, "schema_valid_but_outside (integer-width class or repeated member)": 0,
             "strictly_valid_but_not_plainly_valid (expected 0)": 0}
        for v, s_, d in triples:
            t["schema_valid"] += v
            t["under_decode_of_valid (no repeated member, strictly valid)"] += s_
            t["of_those_accepted_by_the_parser_model"] += (s_ and d)
            t["schema_valid_but_outside (integer-width class or repeated member)"] += (v and not s_)
            t["strictly_valid_but_not_plainly_valid (expected 0)"] += (s_ and not v)
        return t
    written = [t for i, docs in cov.items() if rows[i]["kind"].startswith("rt_") for t in docs]
    mutated = [t for i, docs in cov.items() if rows[i]["kind"].startswith("mut_") for t in docs]
    classes = res.get("classes", {})
    rt_tp = [i for i, r in enumerate(rows) if r.get("kind") in ("rt_table", "rt_plan")]
    chk.cov["theorem_coverage"]["decode_of_valid_*"] = {"tool_written": tally(written), "mutated": tally(mutated), "schema_guided_mutants": tally(mcov)}
    chk.cov["theorem_coverage"]["valid_encode_*"] = {
        "round_trip_values (TableDef, MigrationPlan)": len(rt_tp),
        "in_image (under the hypothesis of valid_encode_table / valid_encode_plan)": sum(1 for i in rt_tp if classes.get(i) and classes[i][3]),
        "config values (valid_encode_config has no hypothesis)": sum(1 for r in rows if r.get("kind") == "rt_config")}
    contradiction = [t for t in written + mutated + mcov if t[1] and not t[2]]
    if contradiction:      # cannot happen while Gen/C15Schemas.v compiles; reported, never hidden
        rp = vflib.write_replay(PROP, "theorem:decode_of_valid", {"note": "a strictly valid document is rejected by the parser model", "count": len(contradiction)})
        chk.violation(rp, True)
    samples = []
    for r, vd in zip(rows, verdicts):
        if vd and r["kind"] == "rt_plan" and len(samples) < 1:
            samples.append({"kind": r["kind"], "text": r["text"][:700], "verdicts": vd[0]})
        if vd and r["kind"].startswith("mut_") and vd[0]["shipped"] and len(samples) < 2:
            samples.append({"kind": r["kind"], "text": r["text"][:500], "labels": r.get("labels"), "schema_valid": True, "serde_ok": r.get("serde_ok")})
    samples += [{"kind": "guided-mutant:" + m["kind"], "label": m["label"], "text": m["text"][:500], "serde_ok": m["serde_ok"]} for m in mutants[:2]]
    chk.cov["samples"] = samples
    for why, i, extra in failures[:5]:
        rp = vflib.write_replay(PROP, "oracle", {"tier": tier, "seed": seed, "why": why, "input": serderun.input_of(rows[i]), "extra": extra,
                                                 "verdicts": verdicts[i], "replay_cmd": "./vf replay %s <this file>" % PROP})
        chk.violation(rp)
    for m in mfail[:5]:
        rp = vflib.write_replay(PROP, "oracle", {"tier": tier, "seed": seed, "why": "schema-valid mutant rejected by the parser: %s" % m.get("serde_err"),
                                                 "input": {"kind": "mut_" + m["kind"], "text": m["text"], "labels": [m["label"]]},
                                                 "replay_cmd": "./vf replay %s <this file>" % PROP})
        chk.violation(rp)
    binary_stream(chk, tier, seed)
    if (mism or errors or serde_mism or mut_model_mism) and not failures and not mfail:
        payload = {"tier": tier, "seed": seed, "shard_errors": errors[:2],
                   "broken": [n for n, c in chk.cov["correspondences"].items() if c["mismatches"]]}
        if mism:
            i = sorted(mism)[0]
            payload["first_differing_case"] = serderun.input_of(rows[i])
            payload["python_jsonschema"] = verdicts[i]
        elif mut_model_mism:
            m = mutants[mut_model_mism[0]]
            payload["first_differing_case"] = {"kind": "mut_" + m["kind"], "text": m["text"], "serde_ok": m["serde_ok"],
                                               "model_bits [decodes; unbounded; valid_shipped]": mbits[mut_model_mism[0]] if mut_model_mism[0] < len(mbits) else None}
        elif serde_mism:
            i = int(sorted(serde_mism, key=int)[0])
            payload["first_differing_case"] = serderun.input_of(rows[i])
        rp = vflib.write_replay(PROP, "correspondence:K-schema", payload)
        chk.violation(rp, True)
    return chk.finish()


def binary_stream(chk, tier, seed):
    """O-C15 on the real binary: every file `init` / `new [--format]` / `revision` writes parses in the format of
    its extension, validates against the shipped schema its $schema names, and loads."""
    import clirun
    rc, out = clirun.build_binary()
    if rc != 0 or not os.path.exists(clirun.BIN):
        rp = vflib.write_replay(PROP, "correspondence:build-binary", {"log": out[-2000:]})
        chk.violation(rp, True)
        return
    work = os.path.join(CACHE, "c15bin")
    outp = os.path.join(CACHE, "c15bin_result.json")
    p = subprocess.run([PY_VT, os.path.join(ROOT, "tools", "c15_binstream.py"), "--bin", clirun.BIN, "--hserde", os.path.join(vflib.TARGET, "debug", "hserde"),
                        "--schemas", SHIPPED, "--work", work, "--out", outp], capture_output=True, text=True)
    if p.returncode != 0 or not os.path.exists(outp):
        rp = vflib.write_replay(PROP, "correspondence:binary-stream", {"log": (p.stdout + p.stderr)[-2000:]})
        chk.violation(rp, True)
        return
    r = json.load(open(outp))
    chk.cov["binary_stream"] = {"projects": r["projects"], "files_checked": r["files_checked"], "problems": len(r["problems"]),
                                "combinations": "modelFormat x (no override | --format json|yaml|yml) x migrationFormat (cycled)"}
    tl = r.get("text_layer", {})
    tcases = [c for c in tl.get("cases", []) if c.get("gallina")]
    text_problems = []
    tstats = {k: v for k, v in tl.items() if k != "cases"}
    if tcases:
        # the expectation is formed inside Coq: schema-valid (python-jsonschema, cross-checked with the Gallina validator)
        # AND decoded by the Gallina parser model (decode_of_valid: strictly valid + no repeated member => decodes)
        f = os.path.join(CACHE, "c15bin_text.v")
        src = "From VV.SERDE Require Import CorrSchema ShippedSchemas GeneratedSchemas.\n" + SH_GN
        src += "Definition docs : list (dkind * json) := [\n" + ";\n".join("(%s, %s)" % (KINDS[c["kind"]][1], c["gallina"]) for c in tcases) + "\n].\n"
        src += "Eval vm_compute in map (cov_bits sh) docs.\n"
        open(f, "w").write(src)
        rc, out, _ = coqc(f, cwd=CACHE)
        bits = None
        if rc == 0:
            try:
                bits = json.loads(vflib.parse_eval_outputs(out)[0].replace(";", ","))
            except Exception:
                bits = None
        if not bits or len(bits) != len(tcases):
            rp = vflib.write_replay(PROP, "correspondence:binary-text-layer", {"log": out[-1500:]})
            chk.violation(rp, True)
        else:
            tstats.update({"model_decodes": 0, "strictly_valid (under decode_of_valid)": 0, "expected_accept (schema-valid and decoded by the model)": 0,
                           "K-schema_mismatches (Gallina valid vs python-jsonschema)": 0, "hserde_vs_binary_disagreements": 0})
            for c, (mv, ms, md) in zip(tcases, bits):
                expected = bool(c["schema_valid"] and md)
                tstats["model_decodes"] += md
                tstats["strictly_valid (under decode_of_valid)"] += ms
                tstats["expected_accept (schema-valid and decoded by the model)"] += expected
                if mv != c["schema_valid"]:
                    tstats["K-schema_mismatches (Gallina valid vs python-jsonschema)"] += 1
                    text_problems.append(dict(c, why="K-schema: the Gallina validator says %s, python-jsonschema says %s" % (mv, c["schema_valid"])))
                if c["serde_json"] != c["binary"]:
                    tstats["hserde_vs_binary_disagreements"] += 1
                    chk.notes.append("NOTE %s: hserde's serde_json parse says %s, the binary says %s" % (c["case"], c["serde_json"], c["binary"]))
                if c["binary"] != expected:
                    text_problems.append(dict(c, why="a .json %s file that %s is %s by the tool (%s): %s" % (
                        "model" if c["kind"] == "table" else "migration",
                        "validates against the shipped schema and that the parser model decodes" + (" (strictly valid: decode_of_valid applies)" if ms else "") if expected else "is schema-invalid or not decoded by the parser model",
                        "rejected" if expected else "accepted", " / ".join(c["commands"][1:]), c.get("binary_output", ""))))
    chk.cov["binary_stream"]["json_text_layer (files the loader reads: .json -> serde_json; same text through serde_yaml for contrast)"] = tstats
    chk.cov["evaluations"] += r["files_checked"] + tl.get("documents", 0)
    chk.cov["traces_validated_against_impl"] += r["files_checked"] + tl.get("documents", 0)
    r["problems"] = r["problems"] + [{k: v for k, v in pr.items() if k not in ("gallina", "binary_output")} for pr in text_problems]
    json.dump(r, open(outp, "w"), indent=1)
    chk.cov["binary_stream"]["problems"] = len(r["problems"])
    if r["cases"]:
        chk.cov["samples"] = chk.cov.get("samples", []) + [{"kind": "binary-stream", **{k: r["cases"][5][k] for k in ("modelFormat", "new_format_override", "migrationFormat", "files")}}]
    for pr in r["problems"][:5]:
        rp = vflib.write_replay(PROP, "oracle:binary", {"tier": tier, "seed": seed, "why": pr["why"],
                                                        "input": {"kind": "binary", **{k: v for k, v in pr.items() if k != "why"}},
                                                        "replay_cmd": "./vf replay %s <this file>" % PROP})
        chk.violation(rp)


def setup():
    """pre-build the schema generator and the harness (optional accelerator for ./vf setup)"""
    regenerate()
    serderun.build()


def text_diff(a, b):
    import difflib
    x = json.dumps(json.load(open(a)), indent=1, sort_keys=True).splitlines()
    y = json.dumps(json.load(open(b)), indent=1, sort_keys=True).splitlines()
    return [l for l in difflib.unified_diff(x, y, "shipped", "regenerated", lineterm="", n=1)][:80]


def replay(path):
    rp = json.load(open(path))
    kind = rp.get("kind", "")
    if kind.startswith("theorem:shipped_is_current_"):
        x = kind.rsplit("_", 1)[1]
        gd, err = regenerate()
        if err:
            print(err)
            return 1
        d = text_diff("/repo/schemas/%s.schema.json" % x, os.path.join(gd, "%s.schema.json" % x))
        print("\n".join(d))
        if d:
            print("VIOLATION property=%s replay=%s" % (PROP, path))
            return 1
        return 0
    inp = rp.get("input") or rp.get("first_differing_case")
    if inp and inp.get("kind") == "binary":
        chk = vflib.Check(PROP, "quick", 1)
        serderun.build()
        binary_stream(chk, "quick", 1)
        same = [v for v in chk.violations]
        r = json.load(open(os.path.join(CACHE, "c15bin_result.json")))
        if inp.get("case"):
            hit = [p for p in r["problems"] if p.get("case") == inp.get("case")]
        else:
            hit = [p for p in r["problems"] if (p.get("modelFormat"), p.get("new_format_override")) == (inp.get("modelFormat"), inp.get("new_format_override"))]
        for p in hit:
            print(p["why"])
        if hit:
            print("VIOLATION property=%s replay=%s" % (PROP, path))
            return 1
        print("the recorded combination passes now (%d other problems)" % len(r["problems"]))
        return 0
    if not inp or not inp.get("text"):
        print(json.dumps(rp, indent=1)[:3000])
        return 1
    binp, err = serderun.build()
    if err:
        print(err)
        return 1
    k = inp["kind"].split("_", 1)[1] if "_" in inp["kind"] else inp["kind"]
    pr = subprocess.run([binp, "parse"], input=json.dumps({"kind": k, "text": inp["text"]}) + "\n", capture_output=True, text=True)
    serde_ok = '"ok":true' in pr.stdout.replace(" ", "")
    code = ("import json,jsonschema,sys\n"
            "s=json.load(open('/repo/schemas/%s.schema.json'))\n"
            "print(jsonschema.Draft202012Validator(s).is_valid(json.loads(sys.stdin.read())))\n") % KINDS[k][0]
    pv = subprocess.run([PY_VT, "-c", code], input=inp["text"], capture_output=True, text=True)
    valid = pv.stdout.strip() == "True"
    print("parser accepts: %s   valid under shipped schema: %s" % (serde_ok, valid))
    written = inp["kind"].startswith("rt_")
    bad = (written and not valid) or (not written and valid and not serde_ok) or (written and "undeclared" in json.dumps(rp.get("why", "")))
    if bad:
        print("VIOLATION property=%s replay=%s" % (PROP, path))
        return 1
    return 0
