"""Shared runner of the `sqlite` layer (C02, C05, and the SQLite parts of C14 / C19).

  hsqlite (Rust, /repo working tree)  ->  cases.jsonl : per migration baseline, plan, believed post schema,
                                          the implementation's SQLite statements per action
  O-C02  every history is executed on the real libsqlite3 (python sqlite3, fresh in-memory database, each migration in
         one transaction, PRAGMA foreign_keys ON and OFF); after each migration the physical catalog is read back and
         compared with the catalog the believed post schema describes (DESIGN.md Appendix A)
  K-sql  the statements are parsed (tools/sqlite_sqlparse.py) and compared inside Coq with Model/Gen.v's gen_plan
  K-eng  Model/Engine.v's exec over the model's statements against what libsqlite3 did (catalog, first error position)
  O-C05  the same histories on populated databases, row snapshots before/after
"""
import collections, glob, hashlib, json, os, re, shutil, sqlite3, sys, time
import vflib
from vflib import ROOT, CACHE

sys.path.insert(0, os.path.join(ROOT, "tools"))
import sqlite_sqlparse as sqlparse

LAYER = "sqlite"
WS = "harness_sqlite"

# ------------------------------------------------------------------------------------------------ expected catalog
SIMPLE = {"small_int": "smallint", "integer": "integer", "big_int": "bigint", "real": "float", "double_precision": "double",
          "text": "text", "boolean": "boolean", "date": "date_text", "time": "time_text", "timestamp": "timestamp_text",
          "timestamptz": "timestamp_with_timezone_text", "interval": None, "bytea": "blob(1)", "uuid": "uuid_text",
          "json": "json_text", "inet": "INET", "cidr": "CIDR", "macaddr": "MACADDR", "xml": "XML"}
INT_TYPES = ("small_int", "integer", "big_int")


def is_enum(ty):
    return isinstance(ty, dict) and ty.get("kind") == "enum"


def enum_is_int(ty):
    v = ty.get("values") or []
    return bool(v) and isinstance(v[0], dict)


def render_type(ty, autoinc=False):
    """rendered SQLite type of a column (what a fresh creation writes); None = sea-query cannot render it"""
    if isinstance(ty, str):
        if ty == "big_int" and autoinc:
            return "integer"
        return SIMPLE[ty]
    k = ty["kind"]
    if k == "varchar":
        return "varchar(%d)" % ty["length"]
    if k == "numeric":
        return None if ty["precision"] > 16 else "real(%d, %d)" % (ty["precision"], ty["scale"])
    if k == "char":
        return "char(%d)" % ty["length"]
    if k == "custom":
        return ty["custom_type"]
    if k == "enum":
        return "integer" if enum_is_int(ty) else "enum_text"
    raise ValueError(ty)


def rust_f64(x):
    if x == int(x) and abs(x) < 1e300:
        return str(int(x))
    return repr(x)


def default_to_sql(d):
    if isinstance(d, bool):
        return "true" if d else "false"
    if isinstance(d, int):
        return str(d)
    if isinstance(d, float):
        return rust_f64(d)
    return "''" if d == "" else d


def needs_quoting(s):
    t = s.strip()
    if t == "":
        return True
    if t[0] in "'\"":
        return False
    if "(" in t or ")" in t:
        return False
    if t.lower() in ("null", "current_timestamp", "current_date", "current_time"):
        return False
    return True


RUST_WS = " \t\n\x0b\x0c\r\x85\xa0\u1680\u2000\u2001\u2002\u2003\u2004\u2005\u2006\u2007\u2008\u2009\u200a\u2028\u2029\u202f\u205f\u3000"


def pg_cast_value(expr):
    """parse_pg_type_cast (helpers.rs:203-245), the value part only (SQLite drops the cast): 'value'::type with '' skipped inside
    the literal — a complete quoted literal that is not followed by ::type is NOT a cast, whatever it contains —, else
    expr::type split at the first '::'. None = not a cast."""
    t = expr.strip(RUST_WS)
    if t.startswith("'"):
        after = t[1:]
        i = 0
        while i < len(after):
            if after[i] == "'":
                if i + 1 < len(after) and after[i + 1] == "'":
                    i += 2
                    continue
                rest = after[i + 1:]
                if rest.startswith("::") and rest[2:].strip(RUST_WS) != "":
                    return "'" + after[:i] + "'"
                return None
            i += 1
        return None
    pos = t.find("::")
    if pos >= 0:
        v, c = t[:pos].strip(RUST_WS), t[pos + 2:].strip(RUST_WS)
        if v != "" and c != "":
            return v
    return None


def convert_default_sqlite(s):
    low = s.lower()
    if low in ("gen_random_uuid()", "uuid()", "lower(hex(randomblob(16)))"):
        return "lower(hex(randomblob(16)))"
    if low in ("current_timestamp()", "now()", "current_timestamp", "getdate()"):
        return "CURRENT_TIMESTAMP"
    v = pg_cast_value(s)
    return s if v is None else v


def expected_default(col):
    """the default expression text the catalog must report (PRAGMA strips outer white space and one pair of parentheses)"""
    if col.get("default") is None:
        return None
    d = col["default"]
    s = convert_default_sqlite(default_to_sql(d))
    if is_enum(col["type"]) and isinstance(d, str) and needs_quoting(s):
        s = "'%s'" % s
    return s.strip()


def enum_values_sql(ty):
    if enum_is_int(ty):
        return ", ".join(str(v["value"]) for v in ty["values"])
    return ", ".join("'%s'" % v.replace("'", "''") for v in ty["values"])


def norm_default(s):
    if s is None:
        return None
    s = s.strip()
    try:
        return ("num", float(s))
    except ValueError:
        return ("txt", s)


def name_with(pfx, table, cols, key):
    return "%s_%s__%s" % (pfx, table, key if key is not None else "_".join(cols))


def expected_catalog(schema):
    """DESIGN.md Appendix A, catalog_of sqlite S: what a fresh creation of the believed schema must leave"""
    tables, indexes = {}, {}
    for t in schema:
        cons = t.get("constraints") or []
        pk = [k for k in cons if k["type"] == "primary_key"]
        pkcols = pk[0]["columns"] if pk else []
        autoinc = bool(pk and pk[0].get("auto_increment"))
        cols = []
        for c in t["columns"]:
            ty = render_type(c["type"], autoinc and c["name"] in pkcols)
            cols.append([c["name"], (ty or "?").lower(), not c["nullable"], norm_default(expected_default(c)),
                         pkcols.index(c["name"]) + 1 if c["name"] in pkcols else 0])
        fks = sorted((tuple(k["columns"]), k["ref_table"], tuple(k["ref_columns"]),
                      (k.get("on_delete") or "no_action"), (k.get("on_update") or "no_action")) for k in cons if k["type"] == "foreign_key")
        checks = [("chk_%s__%s" % (t["name"], c["name"]), '"%s" IN (%s)' % (c["name"], enum_values_sql(c["type"]))) for c in t["columns"] if is_enum(c["type"])]
        checks += [(k["name"], k["expr"]) for k in cons if k["type"] == "check"]
        tables[t["name"]] = {"cols": cols, "autoinc": autoinc, "fks": [list(map(lambda x: list(x) if isinstance(x, tuple) else x, f)) for f in fks],
                             "checks": sorted([list(c) for c in checks])}
        for k in cons:
            if k["type"] in ("unique", "index"):
                n = name_with("uq" if k["type"] == "unique" else "ix", t["name"], k["columns"], k.get("name"))
                ent = [t["name"], k["type"] == "unique", list(k["columns"])]
                if n in indexes and indexes[n] != ent:
                    indexes[n + "#dup"] = ent
                else:
                    indexes[n] = ent
    return {"tables": tables, "indexes": indexes}


# ------------------------------------------------------------------------------------------------ physical catalog
def extract_checks(sql):
    """CONSTRAINT "name" CHECK (expr) clauses of a CREATE TABLE text, quote- and parenthesis-aware"""
    out = []
    for m in re.finditer(r'CONSTRAINT "((?:[^"]|"")*)" CHECK \(', sql or ""):
        i, depth, q = m.end(), 1, None
        while i < len(sql) and depth > 0:
            ch = sql[i]
            if q:
                if ch == q:
                    q = None
            elif ch in "'\"":
                q = ch
            elif ch == "(":
                depth += 1
            elif ch == ")":
                depth -= 1
            i += 1
        out.append([m.group(1), sql[m.end():i - 1]])
    return sorted(out)


ACT = {"NO ACTION": "no_action", "CASCADE": "cascade", "SET NULL": "set_null", "SET DEFAULT": "set_default", "RESTRICT": "restrict"}


def read_catalog_raw(conn):
    """physical catalog through PRAGMAs and sqlite_master, values as the engine reports them"""
    tables, indexes = {}, {}
    for name, sql in conn.execute("SELECT name, sql FROM sqlite_master WHERE type='table' AND name NOT LIKE 'sqlite_%' ORDER BY name").fetchall():
        cols = []
        for cid, cname, ctype, notnull, dflt, pk, hidden in conn.execute('PRAGMA table_xinfo("%s")' % name).fetchall():
            cols.append([cname, ctype or "", bool(notnull), dflt, pk])
        fkrows = collections.defaultdict(list)
        for fid, seq, rt, frm, to, on_up, on_del, _m in conn.execute('PRAGMA foreign_key_list("%s")' % name).fetchall():
            fkrows[fid].append((seq, rt, frm, to, on_up, on_del))
        fks, decl = [], []
        # PRAGMA foreign_key_list numbers the keys from the last declared one (id 0) to the first; the ON DELETE actions of one
        # child table fire in that order, so the declaration order is kept next to the sorted comparison form
        for fid in sorted(fkrows, reverse=True):
            rows = sorted(fkrows[fid])
            fks.append((tuple(r[2] for r in rows), rows[0][1], tuple(r[3] for r in rows), ACT[rows[0][5]], ACT[rows[0][4]]))
            decl.append([list(fks[-1][0]), fks[-1][1], list(fks[-1][2]), fks[-1][3], fks[-1][4]])
        tables[name] = {"cols": cols, "autoinc": bool(re.search(r"\bAUTOINCREMENT\b", sql or "")),
                        "fks": [[list(f[0]), f[1], list(f[2]), f[3], f[4]] for f in sorted(fks)], "fks_decl": decl,
                        "checks": extract_checks(sql)}
        for seq, iname, uniq, origin, partial in conn.execute('PRAGMA index_list("%s")' % name).fetchall():
            if origin != "c":
                continue
            icols = [r[2] for r in conn.execute('PRAGMA index_info("%s")' % iname).fetchall()]
            indexes[iname] = [name, bool(uniq), icols]
    # the actions of different child tables fire from the most recently created table to the oldest: keep the creation order
    order = [r[0] for r in conn.execute("SELECT name FROM sqlite_master WHERE type='table' AND name NOT LIKE 'sqlite_%' ORDER BY rowid").fetchall()]
    return {"tables": tables, "indexes": indexes, "table_order": order}


def normalize_catalog(raw):
    """comparison form: types lower-cased, defaults as ("num", value) | ("txt", text)"""
    tables = {}
    for n, t in raw["tables"].items():
        tables[n] = dict(t, cols=[[c[0], c[1].lower(), c[2], norm_default(c[3]), c[4]] for c in t["cols"]])
    return {"tables": tables, "indexes": raw["indexes"]}


def read_catalog(conn):
    return normalize_catalog(read_catalog_raw(conn))


G_ACT = {"no_action": "NoAction", "cascade": "Cascade", "set_null": "SetNull", "set_default": "SetDefault", "restrict": "Restrict"}


def catalog_gallina(raw):
    g, gl, go, gb = sqlparse.gstr, sqlparse.glist, sqlparse.gopt, sqlparse.gbool
    ts = []
    for n in raw.get("table_order") or sorted(raw["tables"]):
        t = raw["tables"][n]
        cols = gl(t["cols"], lambda c: "(mkCCol %s %s %s %s %d)" % (g(c[0]), g(c[1]), gb(c[2]), go(c[3]), c[4]))
        fks = gl(t.get("fks_decl", t["fks"]), lambda f: "(mkSFk %s %s %s (Some %s) (Some %s))" % (gl(f[0]), g(f[1]), gl(f[2]), G_ACT[f[3]], G_ACT[f[4]]))
        chk = gl(t["checks"], lambda c: "(%s, %s)" % (g(c[0]), g(c[1])))
        ts.append("(mkCTable %s %s %s %s %s)" % (g(n), cols, gb(t["autoinc"]), fks, chk))
    ix = ["(mkCIndex %s %s %s %s)" % (g(n), g(v[0]), gb(v[1]), gl(v[2])) for n, v in sorted(raw["indexes"].items())]
    return "(mkCat [%s] [%s])" % ("; ".join(ts), "; ".join(ix))


def catalog_diff(exp, got):
    """list of human-readable differences; empty = equal"""
    d = []
    for t in sorted(set(exp["tables"]) | set(got["tables"])):
        if t not in got["tables"]:
            d.append("table %s missing" % t)
        elif t not in exp["tables"]:
            d.append(("leftover helper table %s" if t.endswith("_temp") else "unexpected table %s") % t)
        else:
            e, g = exp["tables"][t], got["tables"][t]
            if [c[0] for c in e["cols"]] != [c[0] for c in g["cols"]]:
                d.append("table %s: columns %s, believed %s" % (t, [c[0] for c in g["cols"]], [c[0] for c in e["cols"]]))
            else:
                for ce, cg in zip(e["cols"], g["cols"]):
                    for i, what in ((1, "type"), (2, "notnull"), (3, "default"), (4, "pk position")):
                        if ce[i] != cg[i]:
                            d.append("table %s column %s: %s is %r, believed %r" % (t, ce[0], what, cg[i], ce[i]))
            if e["autoinc"] != g["autoinc"]:
                d.append("table %s: autoincrement is %s, believed %s" % (t, g["autoinc"], e["autoinc"]))
            if e["fks"] != g["fks"]:
                d.append("table %s: foreign keys %s, believed %s" % (t, g["fks"], e["fks"]))
            if e["checks"] != g["checks"]:
                d.append("table %s: CHECK constraints %s, believed %s" % (t, g["checks"], e["checks"]))
    for i in sorted(set(exp["indexes"]) | set(got["indexes"])):
        if i not in got["indexes"]:
            d.append("index %s missing (believed %s)" % (i, exp["indexes"][i]))
        elif i not in exp["indexes"]:
            d.append("leftover index %s %s not in the believed schema" % (i, got["indexes"][i]))
        elif exp["indexes"][i] != got["indexes"][i]:
            d.append("index %s is %s, believed %s" % (i, got["indexes"][i], exp["indexes"][i]))
    return d


# ------------------------------------------------------------------------------------------------ O-C02 on the real engine
def run_migration(conn, rec):
    """execute one migration the way the runtime does (one transaction). Returns None or (action_idx, stmt_idx, flat_idx, message, sql)"""
    conn.execute("BEGIN")
    flat = 0
    for ai, a in enumerate(rec["actions"]):
        for si, s in enumerate(a["sql"]):
            try:
                conn.execute(s)
            except sqlite3.Error as e:
                conn.execute("ROLLBACK")
                return (ai, si, flat, str(e), s)
            flat += 1
    try:
        conn.execute("COMMIT")
    except sqlite3.Error as e:
        try:
            conn.execute("ROLLBACK")
        except sqlite3.Error:
            pass
        return (len(rec["actions"]), 0, flat, "COMMIT: " + str(e), "COMMIT")
    return None


def new_db(fk_on):
    conn = sqlite3.connect(":memory:", isolation_level=None)
    conn.execute("PRAGMA foreign_keys=%s" % ("ON" if fk_on else "OFF"))
    return conn


def generation_failure(rec):
    if rec.get("build_panic") or any(a.get("panic") for a in rec["actions"]):
        return "panic"
    if rec.get("build_error"):
        return "error"
    return None


def oracle_c02_history(recs, fk_on):
    """recs: the migrations of one history in order. Returns (first failure or None, per-migration real catalogs).
    failure = dict(step, kind: generation-panic|generation-error|engine-error|leftover|catalog-difference, detail…)"""
    conn = new_db(fk_on)
    cats = []
    try:
        for k, rec in enumerate(recs):
            gf = generation_failure(rec)
            if gf:
                return {"step": k, "kind": "generation-" + gf, "detail": rec.get("build_error") or "sea-query panicked while rendering a statement"}, cats
            if rec.get("post") is None:
                return {"step": k, "kind": "replay-error", "detail": rec.get("post_error")}, cats
            err = run_migration(conn, rec)
            if err:
                cats.append({"error": {"action": err[0], "stmt": err[1], "flat": err[2], "message": err[3]}})
                return {"step": k, "kind": "engine-error", "action": err[0], "stmt": err[1], "flat": err[2], "message": err[3], "sql": err[4]}, cats
            raw = read_catalog_raw(conn)
            got = normalize_catalog(raw)
            diff = catalog_diff(expected_catalog(rec["post"]), got)
            cats.append({"catalog": raw, "believed_ok": not diff})
            if diff:
                left = [x for x in diff if x.startswith("leftover")]
                return {"step": k, "kind": "leftover" if left and len(left) == len(diff) else "catalog-difference", "differences": diff}, cats
        return None, cats
    finally:
        conn.close()


# ------------------------------------------------------------------------------------------------ harness
def tree_hash(paths):
    h = hashlib.sha1()
    for base in paths:
        if os.path.isfile(base):
            h.update(open(base, "rb").read())
            continue
        for f in sorted(glob.glob(os.path.join(base, "**", "*"), recursive=True)):
            if os.path.isfile(f) and "/target/" not in f and "/.git/" not in f and not f.endswith((".vo", ".vok", ".vos", ".glob", ".aux")):
                h.update(f.encode())
                h.update(open(f, "rb").read())
    return h.hexdigest()[:16]


def sizes(tier):
    if tier == "thorough":
        return {"histories": 2500, "steps": 5, "per_shard": 40, "pending": 400}
    return {"histories": 260, "steps": 4, "per_shard": 30, "pending": 50}


def generate(tier, seed, out_dir, corpus=None, histories=None):
    sz = sizes(tier)
    rc, out, binp = vflib.build_harness("hsqlite", ws=WS)
    if rc != 0:
        return None, "hsqlite build failed:\n" + out[-3000:]
    shutil.rmtree(out_dir, ignore_errors=True)
    os.makedirs(out_dir)
    rc, out, _ = vflib.sh([binp, "gen", "--seed", str(seed), "--histories", str(sz["histories"] if histories is None else histories), "--steps", str(sz["steps"]),
                           "--pending", str(sz["pending"] if histories is None else 0),
                           "--out", out_dir, "--corpus", corpus if corpus is not None else os.path.join(ROOT, "corpus", "sqlite")], timeout=1200)
    if rc != 0:
        return None, "hsqlite gen failed: " + out[-2000:]
    rows = [json.loads(l) for l in open(os.path.join(out_dir, "cases.jsonl"))]
    return rows, None


def by_history(rows):
    h = collections.OrderedDict()
    for i, r in enumerate(rows):
        r["_idx"] = i
        h.setdefault(r["hist"], []).append(r)
    return h


# ------------------------------------------------------------------------------------------------ K-sql(sqlite)
def impl_term(rec):
    """the implementation's output of one migration as a Gallina term of type result (list (list stmt)) gen_error;
    raises sqlparse.Unparsed"""
    gf = generation_failure(rec)
    if gf == "panic":
        return "(Err GenPanic)"
    if gf == "error":
        return "(Err GenError)"
    per_action = []
    for a in rec["actions"]:
        per_action.append("[" + "; ".join(sqlparse.gallina(sqlparse.parse_action_statement(s, a["kind"])) for s in a["sql"]) + "]")
    return "(Ok [" + ";\n      ".join(per_action) + "])"


def write_sql_shards(rows, d, per_shard, stem="cases_sql", header="From VV.SQLITE Require Import Corr.\n",
                     tail="Eval vm_compute in sql_mismatches_from shard_base cases.\n", ty="sql_case", term=None):
    """returns (idx_map: shard-local position -> row index, unparsed: [(row index, message)])"""
    idx_map, unparsed, cases = [], [], []
    for i, r in enumerate(rows):
        try:
            t = term(r) if term else "(mkSqlCase %s\n   %s\n   %s)" % (r["g_baseline"], r["g_actions"], impl_term(r))
        except sqlparse.Unparsed as e:
            unparsed.append((i, str(e)[:300]))
            continue
        idx_map.append(i)
        cases.append(t)
    for si in range(0, len(cases), per_shard):
        chunk = cases[si:si + per_shard]
        body = header + "\nDefinition shard_base : nat := %d.\nDefinition cases : list %s := [\n%s\n].\n%s" % (si, ty, ";\n".join(chunk), tail)
        open(os.path.join(d, "%s_%03d.v" % (stem, si // per_shard)), "w").write(body)
    return idx_map, unparsed


def run_ksql(rows, d, per_shard):
    """K-sql(sqlite) inside Coq. Returns dict(mismatches=[row idx], unparsed=[..], errors=[shard logs])"""
    idx_map, unparsed = write_sql_shards(rows, d, per_shard)
    res = vflib.run_shards(LAYER, d, "cases_sql_*.v")
    mism, errors = [], []
    for f, rc, o, dt in res:
        if rc != 0:
            errors.append({"shard": os.path.basename(f), "log": o[-1500:]})
            continue
        blocks = vflib.parse_eval_outputs(o)
        for k in vflib.parse_nat_list(blocks[0] if blocks else ""):
            mism.append(idx_map[k])
    return {"mismatches": sorted(mism), "unparsed": unparsed, "errors": errors, "cases": len(idx_map)}


# ------------------------------------------------------------------------------------------------ known-finding classifiers (evaluated in Coq)
def classify(d, idx_map, per_shard, row_idxs, classifiers, stem="cases_sql", module="Known"):
    """Evaluate Gallina classifiers `schema -> list action -> bool` on the cases with row indices row_idxs.
    Returns {row idx: {classifier: bool}} or None when Coq fails."""
    if not row_idxs or not classifiers:
        return {}
    inv = {g: k for k, g in enumerate(idx_map)}
    rows = [i for i in row_idxs if i in inv]
    shards = sorted({inv[i] // per_shard for i in rows})
    lines = ["From VV.SQLITE Require Import Corr %s." % module] + ["From Cases Require %s_%03d." % (stem, s) for s in shards]
    for i in rows:
        k = inv[i]
        lines.append("Eval vm_compute in match nth_error %s_%03d.cases %d with Some c => [%s] | None => [] end." % (
            stem, k // per_shard, k % per_shard, "; ".join("%s (q_baseline c) (q_actions c)" % c for c in classifiers)))
    f = os.path.join(d, "classify_%s.v" % hashlib.sha1(" ".join(classifiers).encode()).hexdigest()[:8])
    open(f, "w").write("\n".join(lines) + "\n")
    rc, out, _ = vflib.sh(["timeout", "900", "coqc", "-noglob"] + vflib.q_flags(LAYER) + ["-Q", d, "Cases", f], cwd=d, timeout=960)
    if rc != 0:
        return None
    res = {}
    for i, b in zip(rows, vflib.parse_eval_outputs(out)):
        res[i] = dict(zip(classifiers, vflib.parse_bool_list(b)))
    return res


# ------------------------------------------------------------------------------------------------ K-eng-sqlite
EMPTY_CAT = {"tables": {}, "indexes": {}}


def eng_cases(hist_recs, cats, fk_on):
    """Gallina eng_case terms for the migrations of one history that libsqlite3 actually executed"""
    out = []
    pre = EMPTY_CAT
    for rec, cat in zip(hist_recs, cats):
        if "error" in cat:
            real = "(Err %d)" % cat["error"]["flat"]
            ok = "false"
        else:
            real = "(Ok %s)" % catalog_gallina(cat["catalog"])
            ok = sqlparse.gbool(cat["believed_ok"])
        out.append((rec["_idx"], "(mkEngCase %s %s\n   %s\n   %s\n   %s %s)" % (
            sqlparse.gbool(fk_on), catalog_gallina(pre), rec["g_baseline"], rec["g_actions"], real, ok)))
        if "catalog" in cat:
            pre = cat["catalog"]
    return out


def run_keng(cases, d, per_shard):
    """cases: [(row idx, term)]. Returns dict(mismatches={pos: (row idx, [subchecks])}, errors)"""
    terms = [t for _, t in cases]
    for si in range(0, len(terms), per_shard):
        body = "From VV.SQLITE Require Import Corr.\n\nDefinition shard_base : nat := %d.\nDefinition cases : list eng_case := [\n%s\n].\nEval vm_compute in eng_mismatches_from shard_base cases.\n" % (
            si, ";\n".join(terms[si:si + per_shard]))
        open(os.path.join(d, "cases_eng_%03d.v" % (si // per_shard)), "w").write(body)
    res = vflib.run_shards(LAYER, d, "cases_eng_*.v")
    mism, errors = {}, []
    for f, rc, o, dt in res:
        if rc != 0:
            errors.append({"shard": os.path.basename(f), "log": o[-1500:]})
            continue
        blocks = vflib.parse_eval_outputs(o)
        for (k, subs) in vflib.parse_nat_pairs(blocks[0] if blocks else ""):
            mism[k] = (cases[k][0], subs)
    return {"mismatches": mism, "errors": errors, "cases": len(cases)}


# ------------------------------------------------------------------------------------------------ one shared run (C02 and C05 use it)
def load_known(prop):
    """open findings of a property: committed known_findings.json plus props/known_<prop>.proposed.json"""
    out = [k for k in vflib.load_known() if k.get("property") == prop]
    p = os.path.join(ROOT, "props", "known_%s.proposed.json" % prop)
    if os.path.exists(p):
        prop_entries = json.load(open(p))
        ids = {k["id"] for k in prop_entries}
        out = [k for k in out if k["id"] not in ids] + prop_entries      # a proposed entry updates the committed one of the same id
    return out


@vflib.serialized("run_sqlite")
def run_sqlite(tier, seed, corpus=None, histories=None, tag="main"):
    """generate, K-sql, O-C02 on libsqlite3 (both pragmas), K-eng. Cached per (tree hash, tier, seed).
    returns dict(rows, d, per_shard, idx_map, ksql, failures {(fk,row idx): failure}, keng, meta, error?)"""
    sz = sizes(tier)
    rc, out, binp = vflib.build_harness("hsqlite", ws=WS)
    if rc != 0:
        return {"error": "hsqlite build failed:\n" + out[-3000:]}
    key = tree_hash(["/repo/crates/vespertide-core", "/repo/crates/vespertide-planner", "/repo/crates/vespertide-naming",
                     "/repo/crates/vespertide-query", os.path.join(ROOT, "harness", "common"), os.path.join(ROOT, WS, "hsqlite"),
                     os.path.join(ROOT, "coq", "m1", "Base"), os.path.join(ROOT, "coq", "m1", "Model"),
                     os.path.join(ROOT, "coq", LAYER, "Model"), os.path.join(ROOT, "coq", LAYER, "Corr"),
                     corpus or os.path.join(ROOT, "corpus", "sqlite"), os.path.join(ROOT, "tools", "sqlite_sqlparse.py"),
                     os.path.abspath(__file__)])
    d = os.path.join(CACHE, "sqliterun", "%s_%s_%s_%s" % (tag, key, tier, seed))
    done = os.path.join(d, "result.json")
    if os.path.exists(done):
        res = json.load(open(done))
        res["rows"] = [json.loads(l) for l in open(os.path.join(d, "cases.jsonl"))]
        res["failures"] = {(bool(f["fk"]), f["row"]): f for f in res["failure_list"]}
        res["cached"] = True
        return res
    # keep the cache small: drop older runs of the same tier and seed only (a concurrent run of the other tier keeps its directory)
    for old in glob.glob(os.path.join(CACHE, "sqliterun", "%s_*_%s_%s" % (tag, tier, seed))):
        if old != d and time.time() - os.path.getmtime(old) > 900:
            shutil.rmtree(old, ignore_errors=True)
    t0 = time.time()
    rows, err = generate(tier, seed, d, corpus=corpus, histories=histories)
    if err:
        return {"error": err}
    per = sz["per_shard"]
    ksql = run_ksql(rows, d, per)
    idx_map = [i for i in range(len(rows)) if i not in {u[0] for u in ksql["unparsed"]}]
    H = by_history(rows)
    failures, cases = [], []
    executed = 0
    for fk in (True, False):
        for h, recs in H.items():
            f, cats = oracle_c02_history(recs, fk)
            executed += len(cats)
            if f:
                f = dict(f, fk=fk, row=recs[f["step"]]["_idx"], hist=h)
                failures.append(f)
            cases += eng_cases(recs, cats, fk)
    keng = run_keng(cases, d, per)
    keng["mismatches"] = {str(k): v for k, v in keng["mismatches"].items()}
    res = {"d": d, "per_shard": per, "idx_map": idx_map, "ksql": ksql, "failure_list": failures, "keng": keng, "executed_migrations": executed,
           "corpus_dir": corpus,
           "meta": json.load(open(os.path.join(d, "meta.json"))), "gen_s": round(time.time() - t0, 1), "cached": False}
    json.dump(res, open(done, "w"), default=str)
    res["rows"] = rows
    res["failures"] = {(f["fk"], f["row"]): f for f in failures}
    return res


def history_of(rows, row_idx):
    """the migrations of row_idx's history up to and including it (the replayable input)"""
    h = rows[row_idx]["hist"]
    return [r["plan"] for r in rows if r["hist"] == h and r["step"] <= rows[row_idx]["step"]]


def nontrivial_count(rows):
    """distinct migrations with >= 2 actions of >= 2 kinds, or >= 1 action on a baseline of >= 2 tables (by hash of baseline+plan)"""
    seen = set()
    for r in rows:
        if (r["n_actions"] >= 2 and len(r["action_kinds"]) >= 2) or (r["n_actions"] >= 1 and r["n_tables"] >= 2):
            seen.add(hashlib.sha1(json.dumps([r["baseline"], r["plan"]["actions"]], sort_keys=True).encode()).hexdigest())
    return len(seen)


def distribution(rows):
    kinds, how, sizes_ = collections.Counter(), collections.Counter(), collections.Counter()
    for r in rows:
        for a in r["actions"]:
            kinds[a["kind"]] += 1
        how[r["how"]] += 1
        sizes_[str(min(r["n_actions"], 10))] += 1
    return {"action_kinds": dict(kinds), "migration_origin": dict(how), "plan_sizes": dict(sizes_)}


def eval_bool_per_case(d, per, idx_map, imports, expr, stem="hyp"):
    """evaluate the Gallina boolean `expr` (over a sql_case c) on every case; returns (list of row indices where true, errors)"""
    from concurrent.futures import ThreadPoolExecutor
    n_shards = (len(idx_map) + per - 1) // per
    true_rows, errors = [], []

    def one(s):
        f = os.path.join(d, "%s_%03d.v" % (stem, s))
        open(f, "w").write("From VV.SQLITE Require Import Corr %s.\nFrom Cases Require cases_sql_%03d.\nEval vm_compute in map (fun c => %s) cases_sql_%03d.cases.\n" % (imports, s, expr, s))
        rc, out, _ = vflib.sh(["timeout", "900", "coqc", "-noglob"] + vflib.q_flags(LAYER) + ["-Q", d, "Cases", f], cwd=d, timeout=960)
        return s, rc, out
    with ThreadPoolExecutor(max_workers=16) as ex:
        for s, rc, out in ex.map(one, range(n_shards)):
            if rc != 0:
                errors.append(out[-600:])
                continue
            vals = vflib.parse_bool_list(vflib.parse_eval_outputs(out)[0])
            true_rows += [idx_map[s * per + i] for i, v in enumerate(vals) if v]
    return true_rows, errors


def c02_check(tier, seed):
    prop = "C02"
    chk = vflib.Check(prop, tier, seed)
    chk.assumptions = [
        "tie: K-sql(sqlite) (gen_plan vs build_plan_queries(..).sqlite, statement by statement, parsed text with asserted round trip) and "
        "K-eng-sqlite (Engine.exec over the model's statements vs libsqlite3 over the implementation's: catalog and first error position) "
        "are evaluated inside Coq on every migration of every generated history",
        "models are restricted to the sanity assumptions A1-A7 of DESIGN.md section 4.2 (evolutions are truncated at the first model set outside them)",
        "the oracle stops a history at its first failure (later migrations would start from a drifted database)",
        "C02_full_statement is refuted (C02_refuted); outside the classifiers of the recorded findings the claim rests on the proved lemmas "
        "listed in coverage.theorems plus the libsqlite3 oracle on sampled histories",
        "databases are empty (C05 covers populated ones); raw SQL actions are treated as no-ops (A4)"]
    chk.cov["trusted_base"] = vflib.TRUSTED_COMMON + [
        "libsqlite3 3.40.1 through Python's sqlite3 module is the real engine; catalog read-back through PRAGMA table_xinfo / index_list / index_info / "
        "foreign_key_list and sqlite_master.sql (CHECK clauses, AUTOINCREMENT)",
        "tools/sqlite_sqlparse.py (SQL text -> stmt; render(parse(s)) == s asserted for every statement)",
        "modelled, not verified: Rust str::to_lowercase / trim for non-ASCII text; f64 printing (carried as rendered text); error messages (only kinds / positions compared)"]
    vflib.proof_stage(chk, LAYER, prop)
    res = run_sqlite(tier, seed)
    if "error" in res:
        rp = vflib.write_replay(prop, "correspondence:build", {"log": res["error"]})
        chk.violation(rp, True)
        return chk.finish()
    rows = res["rows"]
    chk.cov["evaluations"] = len(rows)
    chk.cov["distinct_nontrivial"] = nontrivial_count(rows)
    chk.cov["rule"] = ("histories grown by the real planner (plan_next_migration + revision fill) from generated evolutions of model sets inside A1-A7, "
                       "half of them hand-extended with RenameTable / RenameColumn / explicit Add/RemoveConstraint / RawSql migrations, a family of histories in which the pending-constraint set matters (tables sharing identical index / unique constraints, rebuilding AddConstraints next to index AddConstraints), plus corpus witnesses; "
                       "each migration is one case (baseline, plan); every history is executed on libsqlite3 with foreign_keys ON and OFF; non-trivial = "
                       ">=2 actions of >=2 kinds, or a baseline of >=2 tables; distinct by hash of (baseline, actions)")
    chk.cov["distribution"] = distribution(rows)
    chk.cov["distribution"]["histories"] = res["meta"].get("histories")
    chk.cov["distribution"]["evolutions_truncated_outside_A1_A7"] = res["meta"].get("truncated_outside_assumptions")
    chk.cov["traces_validated_against_impl"] = res["executed_migrations"]
    chk.cov["cached_run"] = res.get("cached", False)
    sample = next((r for r in rows if r["n_actions"] >= 3 and r["how"] == "grown" and r["step"] >= 1), rows[0])
    chk.cov["samples"] = [{"baseline": sample["baseline"], "plan": sample["plan"], "sqlite_sql": [a["sql"] for a in sample["actions"]]}]
    ksql, keng = res["ksql"], res["keng"]
    chk.cov["correspondences"] = {
        "K-sql(sqlite)": {"cases": ksql["cases"], "mismatches": len(ksql["mismatches"]), "unparsed": len(ksql["unparsed"]), "shard_errors": len(ksql["errors"])},
        "K-eng-sqlite": {"cases": keng["cases"], "mismatches": len(keng["mismatches"]), "shard_errors": len(keng["errors"]),
                         "subchecks": "1 = exec vs libsqlite3 (catalog / first error position); 2 = catalog_of(believed post schema) vs real catalog agrees with the oracle's verdict"}}
    failures = res["failures"]
    known = [k for k in load_known(prop) if k.get("status") == "open"]
    fail_rows = sorted({i for _, i in failures})
    cls = classify(res["d"], res["idx_map"], res["per_shard"], fail_rows, [k["classifier"] for k in known]) if fail_rows else {}
    if cls is None:
        rp = vflib.write_replay(prop, "theorem:classifiers", {"note": "Model/Known.v classifiers did not evaluate"})
        chk.violation(rp, True)
        cls = {}
    covered = collections.Counter()
    unexplained = []
    for (fk, i), f in sorted(failures.items(), key=lambda kv: (kv[0][1], kv[0][0])):
        hits = [k for k in known if cls.get(i, {}).get(k["classifier"]) and f["kind"] in k.get("failure_kinds", [f["kind"]])
                and (k.get("pragma") is None or (k["pragma"] == "ON") == fk)]
        if hits:
            for k in hits:
                covered[k["id"]] += 1
        else:
            unexplained.append(((fk, i), f))
    for k in known:
        wtag = "corpus:" + os.path.basename(k.get("witness", ""))
        wit = [f for (fk, i), f in failures.items() if rows[i]["tag"] == wtag]
        if wit or covered[k["id"]]:
            chk.known_finding(k["id"], k["what"])
        else:
            chk.notes.append("NOTE stale known finding %s: its witness no longer fails" % k["id"])
    kinds = collections.Counter(f["kind"] for f in failures.values())
    under, herr = eval_bool_per_case(res["d"], res["per_shard"], res["idx_map"], "Sim3P", "plan_hyp (q_baseline c) (q_actions c)")
    failing_rows = {i for _, i in failures}
    chk.cov["theorem_coverage"] = {"histories_x_pragmas": 2 * len({r["hist"] for r in rows}), "oracle_failures": len(failures), "by_kind": dict(kinds),
                                   "classified_known": dict(covered), "unexplained": len(unexplained),
                                   "migrations_under_Sim_plan_partial_hypothesis(plan_hyp)": len(under), "of_migrations": len(res["idx_map"]),
                                   "plan_hyp_true_but_engine_error_or_panic": len([i for i in under if i in failing_rows]),
                                   "plan_hyp_true_and_catalog_differs": 0, "plan_hyp_eval_errors": len(herr)}
    # how many plans that use the action kinds admitted last are covered by the theorem's hypotheses
    def late_kinds(r):
        out = set()
        for a, pa in zip(r["actions"], (r.get("plan") or {}).get("actions") or []):
            if a["kind"] == "RenameColumn":
                out.add("RenameColumn")
            if a["kind"] == "DeleteColumn" and any("DROP COLUMN" in q for q in a["sql"]):
                out.add("DeleteColumn(ALTER TABLE DROP COLUMN path)")
            if a["kind"] == "RemoveConstraint" and ((pa.get("constraint") or {}).get("type") == "primary_key"):
                out.add("RemoveConstraint(primary key)")
        return out
    under_set = set(under)
    by_late = {}
    for i in res["idx_map"]:
        for k in late_kinds(rows[i]):
            e = by_late.setdefault(k, {"plans": 0, "under_plan_hyp": 0})
            e["plans"] += 1
            e["under_plan_hyp"] += 1 if i in under_set else 0
    chk.cov["theorem_coverage"]["plans_with_kinds_admitted_last"] = by_late
    # under plan_hyp the theorem leaves only engine errors / generation failures: a catalog difference there contradicts it
    contra = [(fk, i) for (fk, i), f in failures.items() if i in set(under) and f["kind"] in ("catalog-difference", "leftover")]
    chk.cov["theorem_coverage"]["plan_hyp_true_and_catalog_differs"] = len(contra)
    for fk, i in contra[:2]:
        rp = vflib.write_replay(prop, "theorem:Sim_plan_partial-contradicted", {"tier": tier, "seed": seed, "foreign_keys": "ON" if fk else "OFF",
                                "failure": {k: v for k, v in failures[(fk, i)].items() if k != "row"}, "input": {"history": history_of(rows, i)}})
        chk.violation(rp)
    seen_rows = set()
    for (fk, i), f in unexplained:
        if i in seen_rows or len(seen_rows) >= 5:
            continue
        seen_rows.add(i)
        rp = vflib.write_replay(prop, "oracle", {"tier": tier, "seed": seed, "foreign_keys": "ON" if fk else "OFF", "failure": {k: v for k, v in f.items() if k != "row"},
                                                 "input": {"history": history_of(rows, i)}, "sqlite_sql": [a["sql"] for a in rows[i]["actions"]],
                                                 "replay_cmd": "./vf replay %s <this file>" % prop})
        chk.violation(rp)
    broken = []
    if ksql["mismatches"] or ksql["unparsed"] or ksql["errors"]:
        broken.append("K-sql(sqlite)")
    if keng["mismatches"] or keng["errors"]:
        broken.append("K-eng-sqlite")
    if broken and not unexplained:
        payload = {"tier": tier, "seed": seed, "broken": broken, "shard_errors": (ksql["errors"] + keng["errors"])[:2], "unparsed": ksql["unparsed"][:3]}
        first = (ksql["mismatches"] or [u[0] for u in ksql["unparsed"]] or [v[0] for v in keng["mismatches"].values()] or [None])[0]
        if first is not None:
            payload["first_differing_case"] = {"history": history_of(rows, first)}
            payload["implementation_sql"] = [a["sql"] for a in rows[first]["actions"]]
        rp = vflib.write_replay(prop, "correspondence:" + "+".join(broken), payload)
        chk.violation(rp, True)
    return chk.finish()


def replay_history(prop, path, oracle):
    """re-run the implementation-side oracle on the history stored in a replay file"""
    rp = json.load(open(path))
    inp = rp.get("input") or rp.get("first_differing_case")
    if not inp or "history" not in inp:
        print("replay file has no input (%s)" % rp.get("kind"))
        print(json.dumps(rp, indent=1)[:3000])
        return 1
    d = os.path.join(CACHE, "replay_%s" % prop)
    shutil.rmtree(d, ignore_errors=True)
    os.makedirs(os.path.join(d, "corpus"))
    json.dump({"history": inp["history"]}, open(os.path.join(d, "corpus", "replay.json"), "w"))
    rows, err = generate("quick", 1, os.path.join(d, "out"), corpus=os.path.join(d, "corpus"), histories=0)
    if err:
        print(err)
        return 1
    bad = 0
    for fk in (True, False):
        f = oracle(rows, fk)
        print("foreign_keys=%s: %s" % ("ON" if fk else "OFF", json.dumps(f, default=str)[:1500] if f else "ok"))
        if f:
            bad = 1
    if bad:
        print("VIOLATION property=%s replay=%s" % (prop, path))
    return bad


# ------------------------------------------------------------------------------------------------ O-C05: populated databases
def pk_cols_of(t):
    for k in t.get("constraints") or []:
        if k["type"] == "primary_key":
            return k["columns"]
    return []


def col_of(t, n):
    return next((c for c in t["columns"] if c["name"] == n), None)


def base_value(ty, i):
    """a value of the column's type for row i (1-based), distinct per row"""
    if isinstance(ty, str):
        if ty in ("small_int", "integer", "big_int"):
            return i
        if ty in ("real", "double_precision"):
            return i + 0.5
        if ty == "boolean":
            return i % 2
        if ty == "date":
            return "2020-01-0%d" % i
        if ty == "time":
            return "0%d:00:00" % i
        if ty in ("timestamp", "timestamptz"):
            return "2020-01-0%d 00:00:00" % i
        if ty == "uuid":
            return "00000000-0000-0000-0000-00000000000%d" % i
        if ty == "json":
            return '{"k":%d}' % i
        if ty in ("inet", "cidr"):
            return "10.0.0.%d" % i
        if ty == "macaddr":
            return "00:00:00:00:00:0%d" % i
        return "v%d" % i
    k = ty["kind"]
    if k == "numeric":
        return i
    if k == "enum":
        vals = ty["values"]
        v = vals[(i - 1) % len(vals)]
        return v["value"] if isinstance(v, dict) else v
    if k in ("char", "varchar") and ty.get("length") == 1:
        return "abc"[i - 1]
    return "v%d" % i


def row_count(t):
    """3 rows; 2 when the table has a boolean / enum column (so that every column can hold pairwise distinct values and a later
    UNIQUE over it is not violated by the population itself); 1 when an enum has a single label"""
    n = 3
    for c in t["columns"]:
        if c["type"] == "boolean":
            n = min(n, 2)
        if is_enum(c["type"]):
            n = min(n, 2, len(c["type"]["values"]))
    return max(n, 1)


def cell_value(schema, t, c, i, fuel=6):
    """value of column c of row i of table t: foreign-key columns take the referenced column's value of a parent row
    (row 2 of a nullable foreign-key column is NULL); row 2 of any other nullable non-key column is NULL"""
    keyed = set(pk_cols_of(t))
    for k in t.get("constraints") or []:
        if k["type"] == "foreign_key" and c["name"] in k["columns"] and fuel > 0:
            if c["nullable"] and i == 2 and c["name"] not in keyed:
                return None
            parent = next((x for x in schema if x["name"] == k["ref_table"]), None)
            if parent is None:
                return None if c["nullable"] else base_value(c["type"], i)
            rc = col_of(parent, k["ref_columns"][k["columns"].index(c["name"])])
            if rc is None:
                return None if c["nullable"] else base_value(c["type"], i)
            j = (i - 1) % row_count(parent) + 1
            uniq = set(keyed)
            for u in t.get("constraints") or []:
                if u["type"] == "unique":
                    uniq |= set(u["columns"])
            if parent["name"] == t["name"] and c["name"] not in uniq:
                j = 1        # self reference: every row points at row 1 (row i at row i when the column is a key)
            return cell_value(schema, parent, rc, j, fuel - 1)
    if c["nullable"] and i == 2 and c["name"] not in keyed:
        return None
    return base_value(c["type"], i)


def corpus_rows(tag, corpus_dir=None):
    """explicit rows of a corpus history: the optional field "rows": {table: [{column: value, ...}, ...]} of the corpus file.
    They are inserted instead of the generated population the first time the table exists and is empty."""
    if not tag or not tag.startswith("corpus:"):
        return None
    f = os.path.join(corpus_dir or os.path.join(ROOT, "corpus", "sqlite"), tag[len("corpus:"):])
    try:
        return json.load(open(f)).get("rows") or None
    except (OSError, ValueError):
        return None


def populate(conn, schema, only_empty=True, explicit=None):
    """insert rows consistent with the believed schema into every (empty) table; enforcement is switched off while
    inserting, consistency is by construction and verified with PRAGMA foreign_key_check by the caller.
    explicit: {table: [row dict]} given by a corpus file; those tables get exactly these rows."""
    n_ins = 0
    for t in schema:
        if only_empty and conn.execute('SELECT COUNT(*) FROM "%s"' % t["name"]).fetchone()[0] > 0:
            continue
        if explicit and t["name"] in explicit:
            names = [c["name"] for c in t["columns"]]
            for r in explicit[t["name"]]:
                use = [n for n in names if n in r]
                conn.execute('INSERT INTO "%s" (%s) VALUES (%s)' % (t["name"], ", ".join('"%s"' % n for n in use), ", ".join("?" for _ in use)),
                             [r[n] for n in use])
                n_ins += 1
            continue
        for i in range(1, row_count(t) + 1):
            names = [c["name"] for c in t["columns"]]
            vals = [cell_value(schema, t, c, i) for c in t["columns"]]
            conn.execute('INSERT INTO "%s" (%s) VALUES (%s)' % (t["name"], ", ".join('"%s"' % n for n in names), ", ".join("?" for _ in vals)), vals)
            n_ins += 1
    return n_ins


def canon(v):
    if v is None:
        return None
    if isinstance(v, bytes):
        return "x" + v.hex()
    if isinstance(v, float) and v == int(v):
        return str(int(v))
    if isinstance(v, str):
        try:
            f = float(v)
            if f == int(f) and re.fullmatch(r"-?\d+(\.0*)?", v.strip()):
                return str(int(f))
        except ValueError:
            pass
    return str(v)


def snapshot(conn):
    """{table: (columns, sorted list of rows)} with canonical text values"""
    out = {}
    for (name,) in conn.execute("SELECT name FROM sqlite_master WHERE type='table' AND name NOT LIKE 'sqlite_%' ORDER BY name").fetchall():
        cur = conn.execute('SELECT * FROM "%s"' % name)
        cols = [d[0] for d in cur.description]
        rows = [[canon(v) for v in r] for r in cur.fetchall()]
        out[name] = (cols, sorted(rows, key=lambda r: [("", "") if v is None else ("v", v) for v in r]))
    return out


def plan_effects(plan):
    """what the plan says about tables/columns: renames, retyped / deleted / added columns, touched tables (in plan order)"""
    tmap, touched = {}, set()      # tmap: pre table name -> post table name (None = dropped)
    cmap = collections.defaultdict(dict)   # pre table -> {pre col: post col | None}
    retyped, added = collections.defaultdict(set), collections.defaultdict(dict)
    fills = collections.defaultdict(dict)
    cur_name = {}                  # current name -> pre name
    def pre_of(t):
        return cur_name.get(t, t)
    def cur_col(pre_t, c):
        # pre column name whose current name is c
        for a, b in cmap[pre_t].items():
            if b == c:
                return a
        return c
    for a in plan["actions"]:
        ty = a["type"]
        if ty == "raw_sql":
            continue
        if ty == "rename_table":
            p = pre_of(a["from"])
            cur_name.pop(a["from"], None)
            cur_name[a["to"]] = p
            tmap[p] = a["to"]
            touched.add(p)
            continue
        t = a.get("table")
        p = pre_of(t)
        touched.add(p)
        if ty == "create_table":
            touched.add(t)
        elif ty == "delete_table":
            tmap[p] = None
        elif ty == "rename_column":
            pc = cur_col(p, a["from"])
            if pc in added[p]:
                added[p][a["to"]] = added[p].pop(pc)
            else:
                cmap[p][pc] = a["to"]
        elif ty == "delete_column":
            pc = cur_col(p, a["column"])
            if pc in added[p]:
                added[p].pop(pc)
            else:
                cmap[p][pc] = None
        elif ty == "modify_column_type":
            pc = cur_col(p, a["column"])
            retyped[p].add(pc)
            if a.get("fill_with"):
                fills[p][pc] = a["fill_with"]
        elif ty == "modify_column_nullable":
            pc = cur_col(p, a["column"])
            if not a["nullable"]:
                retyped[p].add(pc)      # NULLs are rewritten by the fill: judged separately
        elif ty == "add_column":
            added[p][a["column"]["name"]] = a
    return tmap, cmap, retyped, added, fills, touched


PLAIN_LITERAL = re.compile(r"^\s*(?:'(?:[^']|'')*'|-?\d+(?:\.\d+)?)\s*$")


def expected_backfill(col, fill_with):
    """what the existing rows of a table must hold in a column added through the SQLite rebuild path (NOT NULL or enum column):
    the fill_with value when the action carries one, else the column default, else NULL (add_column.rs:69-78).  Only judged when
    that text is a plain literal (quoted string or number); the value is obtained by letting SQLite store the literal in a
    column of the declared type.  Returns (True, canonical value) or (False, None) when not judged."""
    if col["nullable"] and not is_enum(col["type"]):
        return False, None                      # ALTER TABLE ADD COLUMN path: SQLite itself supplies the default
    src = fill_with if (fill_with is not None and str(fill_with).strip() != "") else (
        default_to_sql(col["default"]) if col.get("default") is not None else None)
    if src is None:
        return True, None
    src = convert_default_sqlite(str(src))           # what convert_default_for_backend hands to SQLite (casts dropped)
    if not PLAIN_LITERAL.match(src):
        return False, None
    ty = render_type(col["type"])
    if ty is None:
        return False, None
    try:
        c = sqlite3.connect(":memory:")
        c.execute('CREATE TABLE x ("v" %s)' % ty)
        c.execute("INSERT INTO x SELECT %s" % src)
        v = c.execute("SELECT v FROM x").fetchone()[0]
        c.close()
    except sqlite3.Error:
        return False, None
    return True, canon(v)


def compare_rows(pre, post, plan):
    """C05's row clauses. Returns list of differences (empty = holds)."""
    tmap, cmap, retyped, added, fills, touched = plan_effects(plan)
    d = []
    for t, (cols, rows) in pre.items():
        if t.endswith("_temp") and t not in touched:
            continue
        pt = tmap.get(t, t)
        if pt is None:
            continue                   # the migration drops the table
        if pt not in post:
            d.append("table %s (pre %s) is gone" % (pt, t))
            continue
        pcols, prows = post[pt]
        if t not in touched:
            if (cols, rows) != (pcols, prows):
                d.append("table %s is not mentioned by the migration but its rows changed: %d -> %d rows" % (t, len(rows), len(prows)))
            continue
        keep = [(c, cmap[t].get(c, c)) for c in cols if cmap[t].get(c, c) is not None and c not in retyped[t]]
        keep = [(a, b) for a, b in keep if b in pcols]
        a = sorted([[r[cols.index(x)] for x, _ in keep] for r in rows], key=lambda r: [("", "") if v is None else ("v", v) for v in r])
        b = sorted([[r[pcols.index(y)] for _, y in keep] for r in prows], key=lambda r: [("", "") if v is None else ("v", v) for v in r])
        if a != b:
            d.append("table %s: %d rows before, %d after; surviving columns %s differ: before %s after %s" % (pt, len(rows), len(prows), [x for x, _ in keep], a[:4], b[:4]))
        # new NOT NULL columns carry a value
        for cn, act in added[t].items():
            if cn in pcols and not act["column"]["nullable"] and rows:
                vals = [r[pcols.index(cn)] for r in prows]
                if any(v is None for v in vals):
                    d.append("table %s: new NOT NULL column %s holds NULL" % (pt, cn))
            # the value the existing rows receive: fill_with first, then the default, then NULL
            if cn in pcols and rows and cn not in retyped[t] and len(prows) == len(rows):
                judged, exp = expected_backfill(act["column"], act.get("fill_with"))
                vals = [r[pcols.index(cn)] for r in prows]
                if judged and any(v != exp for v in vals):
                    d.append("table %s: existing rows hold %s in the new column %s; the action's %s says %r" % (
                        pt, sorted(set(map(str, vals)))[:3], cn, "fill_with" if act.get("fill_with") else "default", exp))
        # removed enum labels are rewritten as mapped
        for pc, mp in fills[t].items():
            if pc in cols and cmap[t].get(pc, pc) in pcols:
                exp = sorted(str(mp.get(r[cols.index(pc)], r[cols.index(pc)])) for r in rows if r[cols.index(pc)] is not None)
                got = sorted(str(r[pcols.index(cmap[t].get(pc, pc))]) for r in prows if r[pcols.index(cmap[t].get(pc, pc))] is not None)
                filled_nulls = any(a["type"] == "modify_column_nullable" and not a["nullable"] and a.get("fill_with") is not None
                                   and a["column"] in (pc, cmap[t].get(pc, pc)) for a in plan["actions"])
                rest = list(got)
                missing = [v for v in exp if not (v in rest and (rest.remove(v) or True))]
                if missing or (rest and not filled_nulls):
                    d.append("table %s column %s: enum values not rewritten as mapped: expected %s got %s" % (pt, pc, exp, got))
    return d


CONSTRAINT_MSG = ("UNIQUE constraint failed", "CHECK constraint failed", "NOT NULL constraint failed", "datatype mismatch", "FOREIGN KEY constraint failed")


def data_caused(rec, err_message, failing_sql=""):
    """C05 exempts failures caused by the existing data violating a constraint the migration introduces (or by a type change,
    whose cast feasibility the property leaves out): the engine reports a constraint failure AND the plan tightens something"""
    if not err_message.startswith(CONSTRAINT_MSG):
        return False
    if err_message.startswith("CHECK constraint failed") and re.match(r'UPDATE "[^"]*" SET "[^"]*" = \'.*\' WHERE "[^"]*" = \'', failing_sql):
        return False     # the enum label rewrite of ModifyColumnType itself fails: the stored value was valid
    fk_msg = err_message.startswith("FOREIGN KEY constraint failed")
    for a in rec["plan"]["actions"]:
        ty = a["type"]
        if fk_msg:
            if ty == "add_constraint" and a["constraint"]["type"] == "foreign_key":
                return True
            if ty == "add_column" and a["column"].get("foreign_key"):
                return True
            if ty == "modify_column_nullable" and not a["nullable"] and "UPDATE" in failing_sql:
                return True      # the default fill value of `revision` (0, '') is not an existing parent key: outside A4
            continue
        if ty == "modify_column_type" or (ty == "modify_column_nullable" and not a["nullable"]):
            return True
        if ty == "add_constraint" and a["constraint"]["type"] == "check":
            return True
        if ty == "add_constraint" and a["constraint"]["type"] in ("unique", "primary_key"):
            # data-caused only if the key involves a column that existed before (a key made only of columns this plan adds
            # is violated by the tool's own constant fill, not by the data)
            t = next((x for x in rec["baseline"] if x["name"] == a["table"]), None)
            if t is None or any(col_of(t, c) is not None for c in a["constraint"]["columns"]):
                return True
    return False


def oracle_c05_history(recs, fk_on, stop_before=None, explicit=None):
    """populated run of one history. stop_before: step index at which the empty-database run (C02) already fails.
    Returns (first failure or None, number of migrations judged, list of (row idx, pre snapshot, post snapshot | error))"""
    conn = new_db(False)
    judged, traces = 0, []
    try:
        for k, rec in enumerate(recs):
            if stop_before is not None and k >= stop_before:
                break
            if generation_failure(rec) or rec.get("post") is None:
                break
            conn.execute("PRAGMA foreign_keys=OFF")
            try:
                populate(conn, rec["baseline"], explicit=explicit)
                bad = conn.execute("PRAGMA foreign_key_check").fetchall()
            except sqlite3.Error:
                bad = True
            if bad:
                break                     # no consistent population found by the simple scheme: not judged
            conn.execute("PRAGMA foreign_keys=%s" % ("ON" if fk_on else "OFF"))
            pre = snapshot(conn)
            pre_cat = read_catalog_raw(conn)
            err = run_migration(conn, rec)
            judged += 1
            if err:
                traces.append((rec["_idx"], pre, {"error": err[2]}, pre_cat))
                if data_caused(rec, err[3], err[4]):
                    return {"step": k, "kind": "exempt-data-violates-new-constraint", "message": err[3], "sql": err[4]}, judged, traces
                return {"step": k, "kind": "engine-error", "action": err[0], "stmt": err[1], "flat": err[2], "message": err[3], "sql": err[4],
                        "rows_before": {t: len(v[1]) for t, v in pre.items()}}, judged, traces
            post = snapshot(conn)
            traces.append((rec["_idx"], pre, post, pre_cat))
            diff = compare_rows(pre, post, rec["plan"])
            if diff:
                return {"step": k, "kind": "rows-differ", "differences": diff}, judged, traces
        return None, judged, traces
    finally:
        conn.close()


# ------------------------------------------------------------------------------------------------ K-eng-sqlite, rows
def rows_gallina(snap):
    g = sqlparse.gstr
    def val(v):
        return "VNull" if v is None else "(VText %s)" % g(v)
    ts = []
    for name in sorted(snap):
        cols, rows = snap[name]
        ts.append("(%s, [%s])" % (g(name), "; ".join("[" + "; ".join("(%s, %s)" % (g(c), val(v)) for c, v in zip(cols, r)) + "]" for r in rows)))
    return "[" + ";\n     ".join(ts) + "]"


def rows_cases(rows, traces, fk_on):
    out = []
    for idx, pre, post, pre_cat in traces:
        real = "(Err %d)" % post["error"] if "error" in post else "(Ok %s)" % rows_gallina(post)
        out.append((idx, "(mkRowsCase %s %s\n   %s\n   %s\n   %s\n   %s)" % (
            sqlparse.gbool(fk_on), catalog_gallina(pre_cat), rows_gallina(pre), rows[idx]["g_baseline"], rows[idx]["g_actions"], real)))
    return out


def run_krows(cases, d, per_shard):
    terms = [t for _, t in cases]
    for si in range(0, len(terms), per_shard):
        body = "From VV.SQLITE Require Import Corr.\n\nDefinition shard_base : nat := %d.\nDefinition cases : list rows_case := [\n%s\n].\nEval vm_compute in rows_mismatches_from shard_base cases.\n" % (
            si, ";\n".join(terms[si:si + per_shard]))
        open(os.path.join(d, "cases_rows_%03d.v" % (si // per_shard)), "w").write(body)
    res = vflib.run_shards(LAYER, d, "cases_rows_*.v")
    mism, errors = [], []
    for f, rc, o, dt in res:
        if rc != 0:
            errors.append({"shard": os.path.basename(f), "log": o[-1500:]})
            continue
        blocks = vflib.parse_eval_outputs(o)
        for k in vflib.parse_nat_list(blocks[0] if blocks else ""):
            mism.append([k, cases[k][0]])
    return {"mismatches": mism, "errors": errors, "cases": len(cases)}


# ------------------------------------------------------------------------------------------------ C05 check
def run_rows_stage(res):
    """populated runs (both pragmas) of the histories of a run_sqlite result + K-eng rows. Cached next to it."""
    d = res["d"]
    done = os.path.join(d, "rows_result.json")
    if os.path.exists(done):
        out = json.load(open(done))
        out["failures"] = {(bool(f["fk"]), f["row"]): f for f in out["failure_list"]}
        return out
    rows = res["rows"]
    H = by_history(rows)
    c02_stop = {}
    for (fk, i), f in res["failures"].items():
        c02_stop[(fk, rows[i]["hist"])] = f["step"]
    failures, cases, judged, exempt = [], [], 0, collections.Counter()
    for fk in (True, False):
        for h, recs in H.items():
            f, j, traces = oracle_c05_history(recs, fk, stop_before=c02_stop.get((fk, h)),
                                              explicit=corpus_rows(recs[0].get("tag"), res.get("corpus_dir")))
            judged += j
            if f:
                if f["kind"].startswith("exempt"):
                    exempt[f["message"].split(":")[0]] += 1
                else:
                    failures.append(dict(f, fk=fk, row=recs[f["step"]]["_idx"], hist=h))
            cases += rows_cases(rows, traces, fk)
    krows = run_krows(cases, d, res["per_shard"])
    out = {"failure_list": failures, "krows": krows, "judged": judged, "exempt": dict(exempt)}
    json.dump(out, open(done, "w"), default=str)
    out["failures"] = {(f["fk"], f["row"]): f for f in failures}
    return out


def c05_check(tier, seed):
    prop = "C05"
    chk = vflib.Check(prop, tier, seed)
    chk.assumptions = [
        "tie: K-sql(sqlite) and K-eng-sqlite with rows (Rows.exec_db over the model's statements vs libsqlite3 over the implementation's: row "
        "snapshots of every table / first error position, foreign_keys ON and OFF) are evaluated inside Coq on every populated migration",
        "each table is populated with 2-3 rows consistent with the believed pre-schema (child rows reference parent rows under whatever ON DELETE "
        "action the model declares, one NULL per nullable column); judged only on migrations that pass C02's oracle on the empty database",
        "exempt by the property's own wording: constraint failures caused by existing data violating a constraint the migration introduces or by a "
        "type change (counted in coverage.theorem_coverage.exempt); the default fill value of `revision` for a foreign-key column is outside A4",
        "PostgreSQL / MySQL row semantics are not modelled (DESIGN.md: partial for those engines); CHECK evaluation in Rows.v covers the enum "
        "clauses and `column > n` only; SQLite type affinity is reduced to a canonical text rendering of values"]
    chk.cov["trusted_base"] = vflib.TRUSTED_COMMON + [
        "libsqlite3 3.40.1 through Python's sqlite3 module is the real engine; rows are read back with SELECT *",
        "tools/sqlite_sqlparse.py (SQL text -> stmt; render(parse(s)) == s asserted for every statement)",
        "the population scheme and the row comparison of checks/sqliterun.py (compare_rows: surviving un-retyped columns as multisets per table)"]
    vflib.proof_stage(chk, LAYER, prop)
    res = run_sqlite(tier, seed)
    if "error" in res:
        rp = vflib.write_replay(prop, "correspondence:build", {"log": res["error"]})
        chk.violation(rp, True)
        return chk.finish()
    rows = res["rows"]
    rr = run_rows_stage(res)
    chk.cov["evaluations"] = rr["judged"]
    touched = [r for r in rows]
    chk.cov["distinct_nontrivial"] = nontrivial_count(rows)
    chk.cov["rule"] = ("every migration of the generated histories (see C02) that passes the empty-database oracle is executed on a populated database "
                       "with foreign_keys ON and OFF (evaluations counts those executions); non-trivial = migration with >=2 actions of >=2 kinds or on a "
                       "baseline of >=2 tables, distinct by hash of (baseline, actions)")
    chk.cov["distribution"] = distribution(rows)
    chk.cov["traces_validated_against_impl"] = rr["krows"]["cases"]
    sample = next((r for r in rows if r["n_tables"] >= 2 and any(a["kind"] in ("ModifyColumnNullable", "AddColumn", "ModifyColumnType") for a in r["actions"])), rows[0])
    chk.cov["samples"] = [{"baseline": sample["baseline"], "plan": sample["plan"], "sqlite_sql": [a["sql"] for a in sample["actions"]]}]
    ksql, krows = res["ksql"], rr["krows"]
    chk.cov["correspondences"] = {
        "K-sql(sqlite)": {"cases": ksql["cases"], "mismatches": len(ksql["mismatches"]), "unparsed": len(ksql["unparsed"]), "shard_errors": len(ksql["errors"])},
        "K-eng-sqlite(rows)": {"cases": krows["cases"], "mismatches": len(krows["mismatches"]), "shard_errors": len(krows["errors"])}}
    failures = rr["failures"]
    known = [k for k in load_known(prop) if k.get("status") == "open"]
    fail_rows = sorted({i for _, i in failures})
    cls = classify(res["d"], res["idx_map"], res["per_shard"], fail_rows, sorted({k["classifier"] for k in known})) if fail_rows else {}
    if cls is None:
        rp = vflib.write_replay(prop, "theorem:classifiers", {"note": "Model/Known.v classifiers did not evaluate"})
        chk.violation(rp, True)
        cls = {}
    covered, unexplained = collections.Counter(), []
    for (fk, i), f in sorted(failures.items(), key=lambda kv: (kv[0][1], kv[0][0])):
        hits = [k for k in known if cls.get(i, {}).get(k["classifier"]) and f["kind"] in k.get("failure_kinds", [f["kind"]])
                and (k.get("pragma") is None or (k["pragma"] == "ON") == fk)]
        if hits:
            for k in hits:
                covered[k["id"]] += 1
        else:
            unexplained.append(((fk, i), f))
    for k in known:
        wtag = "corpus:" + os.path.basename(k.get("witness", ""))
        wit = [f for (fk, i), f in failures.items() if rows[i]["tag"] == wtag]
        if wit or covered[k["id"]]:
            chk.known_finding(k["id"], k["what"])
        else:
            chk.notes.append("NOTE stale known finding %s: its witness no longer fails" % k["id"])
    by = collections.Counter(("ON" if fk else "OFF") + ":" + f["kind"] for (fk, i), f in failures.items())
    chk.cov["theorem_coverage"] = {"populated_migrations_judged": rr["judged"], "oracle_failures": len(failures), "by_pragma_and_kind": dict(by),
                                   "exempt": rr["exempt"], "classified_known": dict(covered), "unexplained": len(unexplained)}
    seen_rows = set()
    for (fk, i), f in unexplained:
        if i in seen_rows or len(seen_rows) >= 5:
            continue
        seen_rows.add(i)
        rp = vflib.write_replay(prop, "oracle", {"tier": tier, "seed": seed, "foreign_keys": "ON" if fk else "OFF", "failure": {k: v for k, v in f.items() if k != "row"},
                                                 "input": {"history": history_of(rows, i)}, "sqlite_sql": [a["sql"] for a in rows[i]["actions"]],
                                                 "replay_cmd": "./vf replay %s <this file>" % prop})
        chk.violation(rp)
    broken = []
    if ksql["mismatches"] or ksql["unparsed"] or ksql["errors"]:
        broken.append("K-sql(sqlite)")
    if krows["mismatches"] or krows["errors"]:
        broken.append("K-eng-sqlite(rows)")
    if broken and not unexplained:
        payload = {"tier": tier, "seed": seed, "broken": broken, "shard_errors": (ksql["errors"] + krows["errors"])[:2]}
        first = (ksql["mismatches"] or [m[1] for m in krows["mismatches"]] or [None])[0]
        if first is not None:
            payload["first_differing_case"] = {"history": history_of(rows, first)}
            payload["implementation_sql"] = [a["sql"] for a in rows[first]["actions"]]
        rp = vflib.write_replay(prop, "correspondence:" + "+".join(broken), payload)
        chk.violation(rp, True)
    return chk.finish()


def c05_replay_oracle(rows, fk):
    for h, recs in by_history(rows).items():
        f2, _ = oracle_c02_history(recs, fk)
        f, _, _ = oracle_c05_history(recs, fk, stop_before=f2["step"] if f2 else None)
        if f and not f["kind"].startswith("exempt"):
            return f
    return None


# ------------------------------------------------------------------------------------------------ parts of the aggregate C19 / C14 checks
def _part(prop_file, tier, seed, extra=None, dep_targets=None):
    """compile Properties/<prop_file>.v of the sqlite layer; returns dict(ok, obligations, discharged, details)"""
    bad = vflib.grep_forbidden(LAYER)
    for dep, targets in (dep_targets or {}).items():
        rc, out = vflib.build_layer(dep, targets=targets)      # proof files of a dependency layer this part builds on
        if rc != 0:
            return {"ok": False, "obligations": 0, "discharged": 0,
                    "details": {"layer": LAYER, "dependency_build_failed": dep, "targets": targets, "build_log": out[-2000:]}}
    rc, out = vflib.build_layer(LAYER, targets=vflib.model_targets(LAYER) + ["Properties/%s.vo" % prop_file])
    details = {"layer": LAYER, "file": "coq/%s/Properties/%s.v" % (LAYER, prop_file), "forbidden": bad}
    if rc != 0 or bad:
        details["build_log"] = out[-2000:]
        return {"ok": False, "obligations": 0, "discharged": 0, "details": details}
    r = vflib.compile_property(LAYER, prop_file)
    unexpected = [a for a in r["axioms"] if a.split(".")[-1] not in {x.split(".")[-1] for x in vflib.AXIOM_ALLOW}]
    details.update({"theorems": r["theorems"], "axioms": r["axioms"], "closed_under_global_context": r["closed"]})
    ok = r["ok"] and not unexpected
    if not r["ok"]:
        details["log_tail"] = r["output"][-2000:]
    res = {"ok": ok, "obligations": r["obligations"], "discharged": r["discharged"] if ok else 0, "details": details}
    if extra and ok:
        extra(res)
    return res


def c19_part(tier, seed):
    """SQLite part of C19: name symmetry create vs drop as lemmas about gen (Properties/C19_sqlite.v); the lemmas speak about the
    implementation through K-sql(sqlite), whose result on this run's cases is attached"""
    def extra(res):
        run = run_sqlite(tier, seed)
        if "error" in run:
            res["ok"] = False
            res["details"]["error"] = run["error"]
            return
        k = run["ksql"]
        res["details"]["K-sql(sqlite)"] = {"cases": k["cases"], "mismatches": len(k["mismatches"]), "unparsed": len(k["unparsed"]), "shard_errors": len(k["errors"])}
        if k["mismatches"] or k["unparsed"] or k["errors"]:
            res["ok"] = False
    return _part("C19_sqlite", tier, seed, extra)


def c14_part(tier, seed, prefix="app_"):
    """SQLite part of C14: prefix equivariance of gen. Proved pieces: Properties/C14_sqlite.v; the whole-plan statement
    (prefix_agrees) is evaluated inside Coq on every generated migration (validation, not proof)"""
    def extra(res):
        run = run_sqlite(tier, seed)
        if "error" in run:
            res["ok"] = False
            res["details"]["error"] = run["error"]
            return
        d, per, idx_map = run["d"], run["per_shard"], run["idx_map"]
        n_shards = (len(idx_map) + per - 1) // per
        bad, errors, under = [], [], [0]

        def one(s):
            f = os.path.join(d, "prefix_%03d.v" % s)
            open(f, "w").write("From VV.SQLITE Require Import Corr Prefix.\nFrom Cases Require cases_sql_%03d.\n"
                               "Eval vm_compute in map (fun c => prefix_agrees %s (q_baseline c) (q_actions c)) cases_sql_%03d.cases.\n"
                               "From VV.SQLITE Require Import PrefixGenP.\n"
                               "Eval vm_compute in map (fun c => prefix_plan_ok %s (q_baseline c) (q_actions c)) cases_sql_%03d.cases.\n"
                               % (s, sqlparse.gstr(prefix), s, sqlparse.gstr(prefix), s))
            rc, out, _ = vflib.sh(["timeout", "900", "coqc", "-noglob"] + vflib.q_flags(LAYER) + ["-Q", d, "Cases", f], cwd=d, timeout=960)
            return s, rc, out
        from concurrent.futures import ThreadPoolExecutor
        with ThreadPoolExecutor(max_workers=16) as ex:
            for s, rc, out in ex.map(one, range(n_shards)):
                if rc != 0:
                    errors.append(out[-800:])
                    continue
                blocks = vflib.parse_eval_outputs(out)
                vals = vflib.parse_bool_list(blocks[0])
                bad += [idx_map[s * per + i] for i, v in enumerate(vals) if not v]
                under[0] += sum(1 for v in vflib.parse_bool_list(blocks[1]) if v) if len(blocks) > 1 else 0
        res["details"]["prefix_agrees"] = {"prefix": prefix, "cases": len(idx_map), "disagreements": len(bad), "first": bad[:3], "shard_errors": len(errors),
                                           "cases_under_theorem_hypothesis(prefix_plan_ok)": under[0]}
        k = run["ksql"]
        res["details"]["K-sql(sqlite)"] = {"cases": k["cases"], "mismatches": len(k["mismatches"]), "unparsed": len(k["unparsed"]), "shard_errors": len(k["errors"])}
        if bad or errors or k["mismatches"] or k["unparsed"] or k["errors"]:
            res["ok"] = False
            if bad:
                res["details"]["first_disagreeing_input"] = {"history": history_of(run["rows"], bad[0])}
    return _part("C14_sqlite", tier, seed, extra, dep_targets={"m1": ["Proofs/PrefixApplyP.vo"]})
