"""Parts of a property that are decided by another property's check on the same run.
C18 (export is reproducible: does not depend on how often the exporter has run) also covers the CLI's handling of the
export directory (cmd_export: cleaning, --export-dir), which is exercised by the C20 machinery (real `vespertide export`
sequences into one directory, compared with an export into an empty directory and with a repeated export)."""
import json, os, re, subprocess, sys
from vflib import ROOT


def c18_from_c20(tier, seed):
    env = dict(os.environ)
    env["VERIF_SEED"] = str(seed)
    p = subprocess.run([sys.executable, os.path.join(ROOT, "vf"), "check", "C20", "--tier", tier], cwd=ROOT, env=env,
                       capture_output=True, text=True, timeout=3600, errors="replace")
    vio = [l for l in p.stdout.splitlines() if l.startswith("VIOLATION")]
    details = {"c20_exit": p.returncode, "c20_violation_lines": len(vio), "c20_summary": p.stdout.strip().splitlines()[-1:] }
    if not vio:
        # a crash of the other check (non-zero exit without a VIOLATION line) is not a pass
        return {"ok": p.returncode == 0, "details": details}
    m = re.search(r"replay=(\S+)", vio[0])
    fi = None
    if m and os.path.exists(os.path.join(ROOT, m.group(1))):
        rp = json.load(open(os.path.join(ROOT, m.group(1))))
        fi = rp.get("input")
        details["c20_replay"] = m.group(1)
        details["c20_kind"] = rp.get("kind")
    return {"ok": False, "details": details, "failing_input": fi}
