"""Parts of a property that are decided by another property's check on the same run.
C18 (export is reproducible: does not depend on how often the exporter has run) also covers the CLI's handling of the
export directory (cmd_export: cleaning, --export-dir), which is exercised by the C20 machinery (real `vespertide export`
sequences into one directory, compared with an export into an empty directory and with a repeated export)."""
import json, os, re, subprocess, sys
from vflib import ROOT


def c18_from_c20(tier, seed):
    env = dict(os.environ)
    env["VERIF_SEED"] = str(seed)
    p = subprocess.run([sys.executable, os.path.join(ROOT, "vf"), "check", "C20", "--tier", tier], cwd=ROOT, env=env,
                       capture_output=True, text=True, timeout=3600, errors="replace")
    vio = [l for l in p.stdout.splitlines() if l.startswith("VIOLATION")]
    details = {"c20_exit": p.returncode, "c20_violation_lines": len(vio), "c20_summary": p.stdout.strip().splitlines()[-1:] }
    if not vio:
        # a crash of the other check (non-zero exit without a VIOLATION line) is not a pass
        return {"ok": p.returncode == 0, "details": details}
    m = re.search(r"replay=(\S+)", vio[0])
    fi = None
    if m and os.path.exists(os.path.join(ROOT, m.group(1))):
        rp = json.load(open(os.path.join(ROOT, m.group(1))))
        fi = rp.get("input")
        details["c20_replay"] = m.group(1)
        details["c20_kind"] = rp.get("kind")
    return {"ok": False, "details": details, "failing_input": fi}


def c09_loader(tier, seed):
    """C09 (every pending migration exactly once, in version order) starts from the list the compile-time loader hands to the
    macro: `load_migrations_from_dir` must return the stored plans in ascending version order whatever the file names and the
    directory enumeration order are.  Decided on the M1 run's loader cases (real loader vs the model's sort_plans, evaluated in Coq,
    plus the ascending / same-under-renaming oracle)."""
    import m1run
    res = m1run.run_m1(tier, seed)
    p = os.path.join(res["dir"], "load.jsonl")
    rows = [json.loads(l) for l in open(p)] if os.path.exists(p) else []
    hist = [r for r in rows if "ok_macro" in r]
    bad = [r for r in hist if not r["ok_macro"]]
    merr = [r for r in rows if "macro_error" in r]
    details = {"histories": len(hist), "not_in_version_order": len(bad), "K-load mismatches": res.get("load_bad"), "macro_loader_errors": len(merr)}
    if bad:
        return {"ok": False, "details": details, "failing_input": {"migration_plans": bad[0]["plans"], "loaded_versions_macro_loader": bad[0]["loaded_macro"],
                                                                   "note": "stored under file names whose lexicographic order differs from version order"}}
    if res.get("load_bad") or merr or not hist:
        return {"ok": False, "details": details}
    return {"ok": True, "details": details}
