"""C17 — exported ORM code is well-formed and mirrors the model."""
import collections, json, os
import vflib, exprun
from exprun import CLASS_IDX

PROP = "C17"
RULE = ("model sets = corpus/exp + FK-shaped generator (several FKs to one table, self references, chains through key columns, junction "
        "tables with 2-3 legs, one-to-one, columns named like derived relation names) + vcommon loader-profile generator, a third of them "
        "with identifier shapes (Rust/Python reserved words, leading digits, mixed case, non-ASCII) + a systematic name-shape stream: 70 shapes "
        "(leading / trailing / double `_` and `-`, separator followed by a digit, digits only, mixed case, Rust and Python keywords, non-ASCII, "
        "empty after sanitising) each used as enum label (string and integer enum), enum name, column name, table name and FK column stem; "
        "+ a systematic default stream: 50 default spellings (function calls, bare expressions, booleans, every f64 spelling, quoted literals "
        "incl. quoted literals containing `(` / `)`, unquoted text), each alone in its table, next to a now() column and next to a "
        "CURRENT_TIMESTAMP column, plus typed bool / integer / float defaults; + a systematic free-text stream: 25 texts (\\n, \\r\\n, lone \\r, trailing / "
        "leading break, leading '#', triple quotes, trailing quote, backslash also at a line end, tabs, non-ASCII, empty, blank, text that looks "
        "like code of the target language) each as table description, as column comment and as both; every table is rendered for the 3 ORMs; "
        "non-trivial = distinct (by hash of the models) set with >= 2 tables and >= 1 foreign key")

# which classifier may explain which failure kind of which ORM
PY_EXPLAINS = {
    "syntax": ["py_ident", "py_text", "py_empty_import"],
    "dup-member": ["py_dup"], "dup-class": ["py_dup"],
    "unresolved-name": ["py_sqlmodel_text", "py_sqlmodel_float_word", "py_dup"],
    "column-count": ["py_dup", "py_ident"], "extra-attribute": ["py_dup", "py_ident"],
}
FINDING_OF = {"clash": "C17-seaorm-member-clash", "py_ident": "C17-py-invalid-identifier", "py_dup": "C17-py-duplicate-definition",
              "py_empty_import": "C17-py-empty-sqlalchemy-import", "py_text": "C17-py-unescaped-text",
              "py_sqlmodel_text": "C17-py-sqlmodel-text-import", "rust_ident": "C17-seaorm-invalid-identifier",
              "py_sqlmodel_float_word": "C17-py-sqlmodel-float-word", "seaorm_doc_cr": "C17-seaorm-doc-comment-cr"}


def verdict(chk, run, tier, seed):
    exp = exprun.eval_exp(run)
    py = exprun.py_oracle(run)
    obs = exprun.jl(os.path.join(run["dir"], "obs.jsonl"))
    classes = exp["classes"]
    open_ids = {k["id"]: k for k in exprun.load_findings(PROP) if k.get("status") == "open"}

    def cls(case, table, name):
        c = classes.get(str(case))
        return bool(c and table < len(c) and CLASS_IDX[name] < len(c[table]) and c[table][CLASS_IDX[name]])

    broken = []
    rel = {i: [c for c in codes if c % 10 in (1, 2, 3, 4, 5, 7, 8, 9)] for i, codes in exp["mismatches"].items()}
    rel = {i: c for i, c in rel.items() if c}
    if rel or exp["errors"]:
        first = sorted(rel.items(), key=lambda kv: int(kv[0]))[:1]
        payload = {"tier": tier, "seed": seed, "shard_errors": exp["errors"][:2], "mismatching_cases": len(rel)}
        if first:
            i, codes = int(first[0][0]), first[0][1]
            payload["first_differing_case"] = exprun.input_of(run, i, codes[0] // 10)
            payload["subchecks"] = sorted({{1: "K-exp(seaorm declarations)", 2: "K-exp(sqlalchemy import block)", 3: "K-exp(sqlmodel import block)", 4: "K-exp(python class name)",
                                          5: "K-exp(sqlmodel columns that use text(...))", 7: "K-exp(sqlmodel field annotations)",
                                          8: "K-exp(sqlalchemy field annotations)", 9: "shape"}[c % 10] for c in codes})
        broken.append(("correspondence:K-exp", payload))
    # ---- O-C17 on the SeaORM declarations parsed from the implementation's text
    failing = []       # (case, table, orm, kinds, detail, explaining classifiers)
    for o in obs:
        for j, t in enumerate(o["tables"]):
            if t["sea"]["status"] == "unparsed":
                failing.append((o["idx"], j, "seaorm", ["unparsed"], t["sea"].get("why"), []))
            inv = [w for w in (t["sea"].get("o17") or []) if w.startswith("invalid-")]
            if inv:
                # one record per table: the class is "every reported non-identifier is one the model predicts"
                failing.append((o["idx"], j, "seaorm", sorted({w.split(":")[0] for w in inv}),
                                {"not_rust_identifiers": inv, "note": "at least one of these is not predicted by the model of the unchanged exporter"}, ["rust_ident"]))
            for w in (t["sea"].get("o17") or []):
                kind = w.split(":")[0]
                if not kind.startswith("invalid-"):
                    failing.append((o["idx"], j, "seaorm", [kind], w, ["clash"] if kind.startswith("duplicate-") else
                                    (["seaorm_doc_cr"] if kind == "bare-cr-in-doc-comment" else [])))
    # ---- O-C17 on the Python text (ast.parse, name resolution, columns once)
    for f in py["fails"]:
        kinds = sorted({x["kind"] for x in f["failures"]})
        expl = sorted({c for k in kinds for c in PY_EXPLAINS.get(k, [])})
        if f["orm"] != "sqlalchemy":
            expl = [c for c in expl if c != "py_empty_import"]
        if f["orm"] != "sqlmodel":
            expl = [c for c in expl if c not in ("py_sqlmodel_text", "py_sqlmodel_float_word")]
        failing.append((f["case"], f["table"], f["orm"], kinds, f["failures"][:3], expl))
    known_hits, unexplained = collections.Counter(), []
    for (case, table, orm, kinds, detail, expl) in failing:
        hit = [c for c in expl if FINDING_OF[c] in open_ids and cls(case, table, c)]
        if hit:
            for c in hit[:1]:
                known_hits[FINDING_OF[c]] += 1
        else:
            unexplained.append((case, table, orm, kinds, detail))
    tags = {o["idx"]: o["tag"] for o in obs}
    for fid, k in open_ids.items():
        wit = "corpus:" + os.path.basename(k.get("witness", ""))
        wit_fails = any(tags.get(f[0]) == wit for f in failing)
        if wit_fails or known_hits.get(fid):
            chk.known_finding(fid, k["what"])
        else:
            chk.notes.append("NOTE stale known finding %s: its witness no longer fails" % fid)
    seen = set()
    for (case, table, orm, kinds, detail) in unexplained:
        if (case, table, orm) in seen or len(seen) >= 5:
            continue
        seen.add((case, table, orm))
        rp = vflib.write_replay(PROP, "oracle", {"tier": tier, "seed": seed, "input": exprun.input_of(run, case, table), "orm": orm,
                                                  "oracle": {"kinds": kinds, "detail": detail}, "replay_cmd": "./vf replay C17 <this file>"})
        chk.violation(rp)
    if broken and not unexplained:
        for kind, payload in broken:
            chk.violation(vflib.write_replay(PROP, kind, payload), True)
    # ---- evidence
    n_tables = sum(len(o["tables"]) for o in obs)
    chk.cov["evaluations"] = len(obs)
    chk.cov["distinct_nontrivial"] = exprun.nontrivial_sets(run)
    chk.cov["rule"] = RULE
    chk.cov["python_mirror_rules"] = exprun.PY_MIRROR_RULES
    chk.cov["samples"] = exprun.table_samples(run)
    chk.cov["distribution"] = dict(exprun.distribution(run), python_modules_parsed=py["checked"],
                                   failure_kinds=dict(collections.Counter(k for f in failing for k in f[3])))
    chk.cov["traces_validated_against_impl"] = n_tables
    chk.cov["correspondences"] = {"K-exp(seaorm declarations, python class name, import blocks, sqlmodel text columns)": {"cases": n_tables, "mismatches": len(rel)}}
    outside = sum(1 for o in obs for j, _ in enumerate(o["tables"]) if not cls(o["idx"], j, "clash"))
    closed = sum(1 for o in obs for j, _ in enumerate(o["tables"]) if cls(o["idx"], j, "fk_closed"))
    chk.cov["theorem_coverage"] = {"tables": n_tables, "known_C17_clash=false (members_distinct_outside_known applies)": outside,
                                   "fk_closed=true (refs_exist applies)": closed,
                                   "python_half": "tested only (ast.parse + name resolution + columns-once on %d modules)" % py["checked"],
                                   "oracle_failures": len(failing), "classified_known": dict(known_hits), "unexplained": len(unexplained)}
    chk.cov["cached_run"] = {"exp": exp.get("cached"), "py": py.get("cached")}


def run(tier, seed):
    chk = vflib.Check(PROP, tier, seed)
    chk.assumptions = ["model = coq/exp/Model/Names.v: declarations of the generated SeaORM entity (columns with Rust type / Option / primary key, relation fields, relation enums, enum types and variants, referenced entities); tie = K-exp: the real render_entity_with_schema text is parsed structurally and compared with `members` inside Coq for every table",
                       "PARTIAL: the Python half (SQLAlchemy, SQLModel) is decided by the ast-based oracle, a test: syntactically valid, every column exactly once, imports cover every name, and a per-column MIRROR check computed from the parsed AST by rules written from the model's type names (coverage.python_mirror_rules: nullability, Python / SQLAlchemy type, primary key, foreign key target, unique, index, default presence); of these only the import blocks, the text(...) columns and the field annotations (type, Optional iff nullable) are also modelled in Gallina and compared inside Coq (K-exp sub-checks 2, 3, 5, 7, 8)",
                       "Rust syntax of the generated entity is not checked beyond its declarations and its line structure (every line of the SeaORM text must be one of the forms the exporter emits, so free text can only sit behind `///`; no bare CR inside a doc-comment line): every struct field, relation enum, enum type and enum variant must be a Rust identifier (ASCII shape [A-Za-z_][A-Za-z0-9_]*, not a keyword unless raw; non-ASCII characters are not judged); the module path super::<table>::Entity is not judged"]
    chk.cov["trusted_base"] = vflib.TRUSTED_COMMON + [
        "structural parser of the SeaORM text in harness_exp/hexp/src/seaparse.rs; Python ast module for the Python ORMs",
        "modelled, not verified: Unicode case mapping of non-ASCII characters (str::to_lowercase / to_uppercase / char::to_uppercase), Unicode alphanumeric classes in the Python exporters"]
    vflib.proof_stage(chk, "exp", PROP)
    r = exprun.prepare(tier, seed)
    if "build_error" in r:
        chk.violation(vflib.write_replay(PROP, "correspondence:build", {"log": r["build_error"]}), True)
        return chk.finish()
    verdict(chk, r, tier, seed)
    return chk.finish()


def replay(path):
    rp = json.load(open(path))
    inp = rp.get("input") or rp.get("first_differing_case")
    if not inp:
        print("replay file has no input (%s)" % rp.get("kind")); print(json.dumps(rp, indent=1)[:3000])
        return 1
    r = exprun.replay_run(PROP, models=inp["models"])
    if r is None:
        return 1
    bad = []
    for o in exprun.jl(os.path.join(r["dir"], "obs.jsonl")):
        for t in o["tables"]:
            if t["sea"].get("o17") or t["sea"]["status"] == "unparsed":
                bad.append({"table": t["name"], "orm": "seaorm", "why": t["sea"].get("o17") or t["sea"].get("why")})
    for f in exprun.py_oracle(r)["fails"]:
        bad.append(f)
    print(json.dumps(bad, indent=1, ensure_ascii=False)[:3000])
    if bad:
        print("VIOLATION property=%s replay=%s" % (PROP, path))
    return 1 if bad else 0
