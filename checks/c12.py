"""C12 — whatever the tool writes, every command can read back unchanged."""
import json, os, shutil
import vflib, serderun
from vflib import ROOT, CACHE

PROP = "C12"
RULE = ("corpus witnesses first; then (a) every TableDef / filled MigrationPlan of generated evolutions (DESIGN §4.3), (b) 'wild' values "
        "covering every field/union shape with YAML-looking, quoted, non-ASCII and empty strings, boundary integers, floats, empty enum lists, "
        "(c) VespertideConfig values, (d) mutated JSON documents (dropped/added/duplicated members, other union branches, wrong types, boundary "
        "numbers, positional forms, integer tags) + fixed quirk probes, (e) one revision write/validate case per evolution step. "
        "non-trivial & distinct = distinct document text that exercises >=1 optional/union member or holds >=2 actions; distinct mutated "
        "documents; revision cases with >=2 actions")
ASSUME = [
    "model = coq/serde/Model/{Json,Serde,Config}.v (value layer: JSON documents as serde_json sees them); tie = K-serde evaluated inside Coq on every case: "
    "encode against serde_json::to_string and against the to_value+$schema file form, decode against serde_json::from_str on the same documents and on mutated documents (decoded values compared, not only accept/reject)",
    "the YAML *text* layer (scalar quoting of true/1e3/~/0x10/null, non-ASCII, block scalars) is NOT modelled: it is exercised by serde_yaml text round trips of every generated value (oracle, a test); level for the YAML half is partial",
    "an integer literal in [2^63,2^64) at a DefaultValue position (serde: Float(z as f64)) is modelled, including Rust's shortest float rendering; JSON probes, YAML probes (tree as serde_yaml hands it to a visitor) and mutants with such literals are compared with the model on every run",
    "writer model = VV.M1 revision_fill (incl. default_as_fill, /repo 446c8b4) with every prompt answered by its default and optional user-supplied --fill-with values for non-enum columns (cross-checked here as K-fill); reader = validate_migration_plan. A user-chosen fill value for an enum column is outside the generators: revision writes it unchecked and the loader may answer InvalidEnumDefault (C12_revision_enum_fill_refuted)",
    "f64 values are carried as their Rust to_string() rendering; serde_json / serde_yaml text parsing and printing are trusted (DESIGN §8)",
]


def known_entries():
    """open findings for this property: committed known_findings.json first, then the proposed file"""
    ents = {k["id"]: k for k in vflib.load_known() if k.get("property") == PROP}
    p = os.path.join(ROOT, "props", "known_%s.proposed.json" % PROP)
    if os.path.exists(p):
        for k in json.load(open(p)).get("findings", []):
            ents.setdefault(k["id"], k)
    return list(ents.values())


def evaluate(chk, res, tier, seed):
    rows, mism, classes = res["rows"], res["mismatches"], res["classes"]
    corr = {}
    for sc, name in serderun.SUBCHECK.items():
        corr[name] = {"cases": sum(1 for r in rows if applies(sc, r)), "mismatches": sum(1 for s in mism.values() if sc in s)}
    chk.cov["correspondences"] = corr
    failing = [i for i, r in enumerate(rows) if "oracle" in r and not r["oracle"].get("ok", True)]
    known = known_entries()
    unexplained = list(failing)
    covered = {}
    for k in known:
        bit = serderun.CLASS_BITS.get(k.get("classifier"))
        if bit is None:
            continue
        hit = [i for i in unexplained if classes.get(i) and classes[i][bit]]
        wit = [i for i in failing if rows[i].get("tag", "") == "corpus:" + os.path.basename(k.get("witness", "")) and classes.get(i) and classes[i][bit]]
        if k.get("status") == "open":
            covered[k["id"]] = len(hit)
            if hit or wit:
                chk.known_finding(k["id"], k["what"])
                unexplained = [i for i in unexplained if i not in hit]
            else:
                chk.notes.append("NOTE stale known finding %s: its witness no longer fails" % k["id"])
        else:
            # a fixed entry suppresses nothing: its witness is still run first and must now pass
            wrows = [i for i, r in enumerate(rows) if r.get("tag", "") == "corpus:" + os.path.basename(k.get("witness", "")) and "oracle" in r]
            bad = [i for i in wrows if i in failing]
            chk.cov.setdefault("fixed_findings_witness_passes", {})[k["id"]] = bool(wrows) and not bad
    img = [i for i, r in enumerate(rows) if r.get("kind", "").startswith("rt_") and classes.get(i)]
    chk.cov["theorem_coverage"] = {
        "round_trip_cases": len(img), "in_image (covered by decode_encode_*)": sum(1 for i in img if classes[i][3]),
        "revision_cases": sum(1 for r in rows if r.get("kind") == "rev"),
        "revision_cases (all covered by revision_no_missing_fill / revision_output_loadable)": sum(1 for r in rows if r.get("kind") == "rev"),
        "revision_cases_of_the_former_D6_shape (defaulted column becomes NOT NULL)": sum(1 for i, r in enumerate(rows) if r.get("kind") == "rev" and classes.get(i) and classes[i][0]),
        "oracle_failures": len(failing), "classified_known": covered, "unexplained": len(unexplained)}
    chk.cov["yaml_text_round_trips"] = {"cases": sum(1 for r in rows if r.get("kind", "").startswith("rt_")),
                                        "failed": sum(1 for r in rows if r.get("kind", "").startswith("rt_") and not r.get("yaml_ok", True))}
    for i in unexplained[:5]:
        r = rows[i]
        rp = vflib.write_replay(PROP, "oracle", {"tier": tier, "seed": seed, "input": serderun.input_of(r), "oracle": r["oracle"],
                                                 "classes": classes.get(i), "replay_cmd": "./vf replay %s <this file>" % PROP})
        chk.violation(rp)
    # an in-image value that does not round-trip contradicts the proved theorem through a faithful model
    if (mism or res["errors"]) and not unexplained:
        first = sorted(mism.items(), key=lambda kv: int(kv[0]))[:1]
        broken = sorted({serderun.SUBCHECK[x] for v in mism.values() for x in v})
        payload = {"tier": tier, "seed": seed, "broken": broken, "shard_errors": res["errors"][:2], "n_mismatching_cases": len(mism)}
        if first:
            i = int(first[0][0])
            payload["first_differing_case"] = serderun.input_of(rows[i])
            payload["implementation"] = {k: rows[i].get(k) for k in ("serde_ok", "serde_err", "json_ok", "oracle")}
            payload["subchecks"] = [serderun.SUBCHECK[s] for s in first[0][1]]
            payload["model_output (encode, decode of text, decode of file form; decoded values re-encoded)"] = serderun.model_output_for(res, i, rows[i].get("kind"))
        rp = vflib.write_replay(PROP, "correspondence:K-serde" if broken else "correspondence:shard-error", payload)
        chk.violation(rp, True)
    return failing, unexplained


def applies(sc, r):
    k = r.get("kind", "")
    if sc in (1, 2, 3, 4):
        return k.startswith("rt_")
    if sc == 5:
        return k.startswith("mut_")
    if sc == 8:
        return k == "val_plan"
    return k == "rev"


def run(tier, seed):
    chk = vflib.Check(PROP, tier, seed)
    chk.assumptions = ASSUME
    chk.cov["trusted_base"] = vflib.TRUSTED_COMMON + [
        "modelled, not verified: serde_json / serde_yaml text parsing and printing, f64 printing (carried as rendered text); YAML text layer exercised by round trips only",
        "harness_serde/hserde: order-preserving JSON reader built on serde_json's own Deserializer (number classification is serde_json's)"]
    vflib.proof_stage(chk, serderun.LAYER, PROP)
    res = serderun.run_serde(tier, seed)
    if "build_error" in res or "coq_error" in res:
        rp = vflib.write_replay(PROP, "correspondence:build", {"log": res.get("build_error") or res.get("coq_error")})
        chk.violation(rp, True)
        return chk.finish()
    rows = res["rows"]
    chk.cov["evaluations"] = len(rows)
    chk.cov["distinct_nontrivial"] = serderun.nontrivial(rows)
    chk.cov["rule"] = RULE
    chk.cov["distribution"] = serderun.distribution(rows)
    chk.cov["traces_validated_against_impl"] = len(rows)
    chk.cov["cached_run"] = res.get("cached", False)
    samples = []
    for want in ("rev", "rt_plan", "mut_table", "rt_config"):
        for r in rows:
            if r.get("kind") == want and (want != "rev" or r.get("n_actions", 0) >= 2):
                s = serderun.input_of(r)
                s = {k: (v[:600] if isinstance(v, str) else v) for k, v in s.items() if k not in ("file", "yaml")}
                samples.append(s)
                break
    chk.cov["samples"] = samples or [serderun.input_of(rows[0])]
    evaluate(chk, res, tier, seed)
    return chk.finish()


def replay(path):
    """Re-run the implementation-side oracle on the input stored in a replay file."""
    rp = json.load(open(path))
    inp = rp.get("input") or rp.get("first_differing_case")
    if not inp:
        print("replay file has no input (%s)" % rp.get("kind"))
        print(json.dumps(rp, indent=1)[:3000])
        return 1
    d = os.path.join(CACHE, "replay_%s" % PROP)
    shutil.rmtree(d, ignore_errors=True)
    os.makedirs(os.path.join(d, "corpus"))
    k = inp.get("kind", "")
    doc = {}
    if k == "rev":
        doc = {"models_now": inp["models_now"], "history": inp.get("history") or []}
        if inp.get("supplied_fill_with"):
            doc["supply"] = inp["supplied_fill_with"]
    elif k.startswith("rt_") and inp.get("text"):
        key = {"rt_table": "table", "rt_plan": "plan", "rt_config": "config"}[k]
        if inp.get("yaml") and k == "rt_table":
            doc = {"table_yaml": inp["yaml"]}     # YAML can spell values JSON cannot (.nan)
        else:
            doc = {key: json.loads(inp["text"])}
    json.dump(doc, open(os.path.join(d, "corpus", "replay.json"), "w"))
    binp, err = serderun.build()
    if err:
        print(err)
        return 1
    bad = 0
    if k.startswith("mut_"):
        kind = {"mut_table": "table", "mut_plan": "plan", "mut_config": "config"}[k]
        import subprocess
        p = subprocess.run([binp, "parse"], input=json.dumps({"kind": kind, "text": inp["text"]}) + "\n", capture_output=True, text=True)
        print(p.stdout.strip())
        print("(a mutated document has no oracle of its own: compare with the model's verdict recorded in the replay file)")
        return 0
    rc, out, _ = vflib.sh([binp, "gen", "--seed", "1", "--evolutions", "0", "--wild", "0", "--mutations", "0", "--out", d, "--corpus", os.path.join(d, "corpus")])
    rows = [json.loads(l) for l in open(os.path.join(d, "cases.jsonl"))]
    for r in rows:
        if not r.get("tag", "").startswith("corpus:"):
            continue
        o = r.get("oracle")
        print(r.get("kind"), json.dumps(o))
        if o is not None and not o.get("ok", True):
            bad = 1
    if bad:
        print("VIOLATION property=%s replay=%s" % (PROP, path))
    return bad
