"""C06 — every prefix of a plan is a consistent schema: actions are ordered by dependency."""
import m1run

RULE = ("(baseline, target) pairs from generated evolutions (baseline = replay of the grown history) plus corpus witnesses; oracle = apply the "
        "plan action by action with the real apply_action and check referential consistency and target presence after each step; "
        "non-trivial = plan with >=2 actions of >=2 kinds or >=2 tables, distinct by hash")


def run(tier, seed):
    return m1run.m1_check("C06", tier, seed, subchecks=[1, 3, 4], oracle_key="c06", known_ids=[], rule=RULE,
                          assumptions=["tie: K-norm, K-apply, K-diff evaluated inside Coq on every case",
                                       "consistency = distinct table names, constraint columns exist, FK target table/columns exist with equal arity (validate_schema's referential rules without the must-have-a-PK rule)"])


def replay(path):
    return m1run.m1_replay("C06", path, "c06")
