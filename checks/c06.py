"""C06 — every prefix of a plan is a consistent schema: actions are ordered by dependency."""
import m1run

RULE = ("(baseline, target) pairs from generated evolutions (baseline = replay of the grown history) plus corpus witnesses; oracle = apply the "
        "plan action by action with the real apply_action and check referential consistency and target presence after each step; "
        "non-trivial = plan with >=2 actions of >=2 kinds or >=2 tables, distinct by hash")


def theorem_coverage(chk, res, rows):
    """share of the sampled pairs that fall under the proved class theorems C06_core_partial3 (hyp_C06_change) and C06_core (hyp_C06_core), and a
    consistency test: hypothesis true must imply the implementation-side oracle passed"""
    import vflib
    vflib.build_layer("m1", targets=["Corr/Hyp06.vo", "Corr/Hyp06b.vo"])
    judged = sum(1 for r in rows if r.get("oracles", {}).get("c06") is not None)
    chk.cov["theorem_coverage"]["cases_judged_by_oracle"] = judged
    for hyp, label in (("hyp_C06_change", "cases_under_C06_core_partial3"), ("hyp_C06_core", "cases_under_C06_core")):
        vals = m1run.eval_on_all_cases(res, hyp, imports="Corr Known2 Hyp Hyp06 Hyp06b")
        if vals is None:
            chk.cov["theorem_coverage"][label] = "not evaluated"
            continue
        chk.cov["theorem_coverage"][label] = sum(1 for v in vals.values() if v)
        for i, v in vals.items():
            o = rows[i].get("oracles", {}).get("c06")
            if v and o is not None and not o.get("ok", True):
                chk.violation(vflib.write_replay("C06", "theorem:%s-contradicted" % hyp, {"input": m1run.input_of(rows[i]), "oracle": o}))
                break


def run(tier, seed):
    return m1run.m1_check("C06", tier, seed, subchecks=[1, 3, 4], oracle_key="c06", known_ids=[], rule=RULE, extra=theorem_coverage,
                          assumptions=["tie: K-norm, K-apply, K-diff evaluated inside Coq on every case",
                                       "consistency = distinct table names, constraint columns exist, FK target table/columns exist with equal arity (validate_schema's referential rules without the must-have-a-PK rule)"])


def replay(path):
    return m1run.m1_replay("C06", path, "c06")
