"""C04 — MySQL: emitted DDL is executable in order and leaves the declared schema; MODIFY keeps the column's
other attributes (AUTO_INCREMENT and COMMENT included since fix N1).  Proofs (coq/mysql/Properties/C04.v) + K-sql(mysql) / K-apply evaluated inside Coq + oracle
O-C04 (the MySQL catalog MODEL run over the statements the implementation emitted) + known-finding classes."""
import json, os, shutil
import vflib, mysqlrun
from vflib import ROOT, CACHE

PROP = "C04"
RULE = ("one case = one migration of one history: histories grown by the real planner (plan_next_migration + revision fill) from "
        "generated evolutions (Profile::Engine), hand-extended histories (RenameTable, RenameColumn, explicit Add/RemoveConstraint, "
        "RawSql, direct ModifyColumn*), and sequences of 3-5 successive single-attribute edits (type / nullability / default / comment) "
        "of one column incl. the auto-increment key column (all 24 orders of the four kinds in quick, all sequences of length 3 and 4 "
        "in thorough), the auto-increment key column retyped by hand-written migrations across the integer / non-integer boundary and back "
        "(integer, big_int, small_int, varchar(36), uuid, text; 4 scripted sequences + random ones, interleaved with comment / default / "
        "nullability MODIFYs: stream `autokey`), hand-written AddColumn for every accepted combination of nullable x default x fill_with "
        "(fill different from the default) over integer, varchar, text, boolean, numeric and a string enum, each followed by a comment change "
        "of the new column (stream `addcol`; the hand stream adds random such AddColumns), corpus witnesses first; non-trivial = migration on a non-empty baseline emitting >= 2 MySQL statements, "
        "distinct by hash of (baseline, plan)")

ENGINE_RULES = [
    "M0 statements on a missing table are refused (1146)", "M1 CREATE TABLE: name free (1050), distinct columns (1060), one PRIMARY KEY (1068), "
    "one auto column and it must be a key (1075), PRIMARY KEY columns become NOT NULL",
    "M2 DROP TABLE: exists; refused while another table's foreign key references it (3730)",
    "M3 RENAME TABLE: target free; index / constraint names unchanged; referencing foreign keys follow",
    "M4 CREATE [UNIQUE] INDEX / UNIQUE KEY: key name free on the table (1061), columns exist (1072)",
    "M5 DROP INDEX: exists (1091); refused when a foreign key needs it (1553)",
    "M6 ADD COLUMN: name new (1060)", "M7 DROP COLUMN: exists (1091), not the last column (1090), in no foreign key of the table (1828), not referenced (1829); "
    "the column leaves every key, empty keys vanish, key names unchanged",
    "M8 RENAME COLUMN: source exists, target free; keys and foreign keys on both sides follow",
    "M9 MODIFY COLUMN: column exists; it becomes EXACTLY the definition (NOT NULL / DEFAULT / AUTO_INCREMENT not restated are lost; an AUTO_INCREMENT column must be a key, 1075); PRIMARY KEY parts must stay NOT NULL (1171); AUTO_INCREMENT on a non-numeric column is refused (1063, also in CREATE TABLE and ADD COLUMN)",
    "M10 foreign key: name unique per schema (1826), columns exist, target table / columns exist, target has a key with the columns leftmost (1822); "
    "an index named like the constraint is created implicitly if no key serves it; M-GEN such an index is dropped when an explicit key covering it is created",
    "M11 DROP FOREIGN KEY: exists (1091); the implicit index stays", "M12 CHECK names unique per schema (3822); DROP CHECK: exists (3821)",
    "M13 ADD PRIMARY KEY: none yet (1068)", "M14 DROP PRIMARY KEY: exists; refused when an auto column or a foreign key needs it (1075, 1553)",
    "M15 UPDATE: table and columns exist; M16 raw SQL: no catalog effect",
    "defaults: DEFAULT '1' and DEFAULT 1 are the same default; comments are not compared"]


def run(tier, seed):
    chk = vflib.Check(PROP, tier, seed)
    chk.assumptions = [
        "the MySQL engine is a MODEL written from DESIGN.md Appendix B and the MySQL 8.0 manual (modelled, not verified: no server in the sandbox); rules: " + " | ".join(ENGINE_RULES),
        "judged only on migrations whose baseline and result satisfy the sanity assumptions A1-A7 of DESIGN.md 4.2 (booleans of coq/mysql/Model/Assumptions.v); the others are counted under coverage.not_judged",
        "tie: K-sql(mysql) — gen_plan = the parsed statements of build_plan_queries(..).mysql[*].build(MySql) — and K-apply on the same inputs, evaluated inside Coq on every case; "
        "the parser tools/mysql_sqlparse.py (text -> stmt) is part of the trusted base; an unparsed statement fails the check",
        "when build_plan_queries fails as a whole because ANOTHER backend's builder errs or panics (e.g. sea-query's SQLite 'precision cannot be larger than 16'), "
        "the MySQL statements are taken from the same loop over the MySQL builder alone; such cases are counted under distribution.build_plan_queries_outcome",
        "known findings are read from known_findings.json and props/known_C04.proposed.json; a failing input is accepted only if a class holds on it (Gallina boolean evaluated in Coq) "
        "AND that class explains every observed symptom (engine rule / differing catalog component)",
        "C04_full_statement is refuted (C04_full_refuted); outside the known classes the simulation is proved per action kind only as far as Properties/C04.v pins it, the rest rests on the oracle run"]
    chk.cov["trusted_base"] = vflib.TRUSTED_COMMON + [
        "MySQL catalog model coq/mysql/Model/Engine.v (modelled, not verified)", "SQL text parser tools/mysql_sqlparse.py",
        "modelled, not verified: Rust to_lowercase / trim on non-ASCII input in convert_default_for_backend; sea-query 0.32.7 text shapes as read from its source"]
    vflib.proof_stage(chk, "mysql", PROP)
    res = mysqlrun.run_mysql(tier, seed)
    if "build_error" in res or "coq_error" in res:
        rp = vflib.write_replay(PROP, "correspondence:build", {"log": res.get("build_error") or res.get("coq_error")})
        chk.violation(rp, True)
        return chk.finish()
    return judge(chk, res, tier, seed)


def judge(chk, res, tier, seed, replaying=False):
    rows, mism, verdicts = res["rows"], res["mismatches"], res["verdicts"]
    histories = mysqlrun.load_histories(res["dir"])
    chk.cov["evaluations"] = len(rows)
    chk.cov["distinct_nontrivial"] = mysqlrun.nontrivial(rows)
    chk.cov["rule"] = RULE
    chk.cov["distribution"] = mysqlrun.distribution(rows)
    chk.cov["distribution"]["rejected_edits"] = res["meta"].get("rejected_edits")
    chk.cov["traces_validated_against_impl"] = len(rows)
    chk.cov["cached_run"] = res.get("cached", False)
    big = [r for r in rows if r.get("step", 0) >= 1 and len(r.get("action_kinds", [])) >= 2]
    chk.cov["samples"] = [mysqlrun.input_of(r, histories) for r in (big[:1] + [x for x in rows if x["tag"] == "modseq"][1:2])] or [mysqlrun.input_of(rows[0], histories)]
    corr = {name: {"cases": len(rows), "mismatches": sum(1 for s in mism.values() if sc in s)} for sc, name in mysqlrun.SUBCHECK.items()}
    corr["parser(mysql text -> stmt)"] = {"statements": chk.cov["distribution"]["statements"], "unparsed": res.get("n_parse_errors", 0)}
    chk.cov["correspondences"] = corr
    known = mysqlrun.known_entries(PROP)
    per, unexplained, skipped = mysqlrun.triage(res, known)
    failing = [i for i, v in verdicts.items() if v["code"] in (1, 2, 4)]
    st = res.get("stats", {})
    chk.cov["theorem_coverage"] = {
        "oracle_failures": len(failing), "classified_known": {k: len(v) for k, v in per.items()}, "unexplained": len(unexplained),
        "holding": len(rows) - len(failing) - sum(skipped.values()),
        "C04_modify_preserves": {"modify_actions_on_existing_columns": st.get("modify_actions"), "under_its_hypothesis": st.get("modify_under_hypothesis"),
                                 "on_auto_increment_columns": st.get("modify_on_autoinc_column")},
        "C04_modify_restates_all": {"modify_actions_on_existing_columns": st.get("modify_all_total"),
                                    "under_C04_modify_preserves(type, nullability, default)": st.get("modify_under_hypothesis"),
                                    "under_C04_modify_restates_all(all six attributes at once)": st.get("modify_under_restates_all"),
                                    "on_the_auto_increment_key_column_with_a_type_that_supports_it": st.get("modify_autoinc_supported"),
                                    "of_which_AUTO_INCREMENT_restated_in_the_implementation_sql": st.get("modify_autoinc_restated_in_impl_sql"),
                                    "type_nullable_default_changes_on_commented_columns": st.get("modify_comment_lost"),
                                    "of_which_MODIFY_without_COMMENT_in_the_implementation_sql": st.get("modify_comment_lost_confirmed_on_impl_sql")},
        "outside_every_known_class": {"judged_migrations": st.get("outside_known_classes"), "holding": st.get("outside_and_holding"),
                                      "proved_as_a_whole_by_a_plan_level_theorem": {"with_the_round3_hypotheses_of_DeleteColumn_RenameColumn": st.get("outside_whole_proved_r3"), "now": st.get("outside_whole_proved_now")}},
        "sim_mysql_lemmas": {"actions_in_judged_migrations": st.get("actions_in_judged_migrations"),
                             "under_a_proved_lemma": st.get("actions_under_a_proved_sim_lemma"),
                             "judged_migrations": st.get("judged_migrations"),
                             "migrations_proved_as_a_whole(C04_Sim_plan_proved_kinds)": st.get("migrations_fully_under_sim_lemmas"),
                             "with_the_round3_hypotheses_of_DeleteColumn_RenameColumn": {"under_a_proved_lemma": st.get("r3_actions_under_a_proved_sim_lemma"),
                                               "migrations_proved_as_a_whole": st.get("r3_migrations_fully_under_sim_lemmas")},
                             "DeleteColumn": {"actions": st.get("delete_column_actions"), "before": st.get("delete_column_r3"), "after": st.get("delete_column_now")},
                             "RenameColumn": {"actions": st.get("rename_column_actions"), "before": st.get("rename_column_r3"), "after": st.get("rename_column_now")},
                             "pending_set_invariant": {"migrations_not_whole_by_Sim_plan": st.get("not_whole_by_Sim_plan"),
                                                       "of_which_proved_by_C04_SimP_plan_equiv": st.get("whole_by_SimP_plan_equiv"),
                                                       "of_which_only_by_C04_SimP_plan_checked": st.get("whole_by_SimP_plan_checked_only")},
                             "proved_kinds": "all 13 action kinds under decidable hypotheses (sim_proved_for; sim_proved_for_r3 = the hypotheses before round 5); one-step lemmas do not cover: the open known-finding classes, inputs outside A1-A7, the re-quoted default of ModifyColumnType (equal only up to norm_default), and AddColumn with an inline constraint + its later AddConstraint (covered as whole plans by the pending-set invariant)"}}
    chk.cov["not_judged"] = dict(skipped)
    # open findings: the stored witness must still fail on the implementation and be explained by its own class
    for k in [k for k in known if k.get("status") == "open"]:
        wname = "corpus:" + os.path.basename(k.get("witness", ""))
        if k.get("observed_in") == "sql-text":
            # no catalog symptom (the modelled catalog holds no comments): the class is confirmed on the implementation's SQL text
            wit = [r for r in rows if r.get("tag") == wname and any(
                "MODIFY COLUMN" in q and "COMMENT" not in q for a in r["result"].get("ok", []) for q in a)
                and any(kind in ("ModifyColumnType", "ModifyColumnNullable", "ModifyColumnDefault") for kind in r.get("action_kinds", []))]
            if wit and st.get("modify_comment_lost_confirmed_on_impl_sql", 0) > 0:
                chk.known_finding(k["id"], k["what"])
            elif not replaying:
                chk.notes.append("NOTE stale known finding %s: its witness no longer shows a MODIFY COLUMN without COMMENT" % k["id"])
            continue
        wit = [i for i, r in enumerate(rows) if r.get("tag") == wname and i in per.get(k["id"], [])]
        if wit or per.get(k["id"]):
            chk.known_finding(k["id"], k["what"])
            if not wit and not replaying:
                chk.notes.append("NOTE witness of %s did not fail by itself this run (other cases of the class did)" % k["id"])
        elif not replaying:
            chk.notes.append("NOTE stale known finding %s: its witness no longer fails" % k["id"])
    for i, left in unexplained[:5]:
        r, v = rows[i], verdicts[str(i)]
        stmts = [s for a in r["result"].get("ok", []) for s in a]
        payload = {"tier": tier, "seed": seed, "input": mysqlrun.input_of(r, histories), "tag": r.get("tag"),
                   "oracle": {"verdict": v, "unexplained_symptoms": left,
                              "refused_statement": stmts[v["stmt"]] if v["code"] == 1 and v["stmt"] < len(stmts) else None,
                              "classes_holding": [n for n, b in zip(res.get("classifiers", []), v["known"]) if b]},
                   "replay_cmd": "./vf replay C04 <this file>"}
        chk.violation(vflib.write_replay(PROP, "oracle", payload))
    broken = sorted({mysqlrun.SUBCHECK[x] for s in mism.values() for x in s})
    if (broken or res["errors"] or res.get("n_parse_errors")) and not unexplained:
        payload = {"tier": tier, "seed": seed, "broken": broken, "shard_errors": res["errors"][:2], "unparsed_statements": res.get("parse_errors", [])[:5]}
        if mism:
            i = sorted(int(x) for x in mism)[0]
            payload["first_differing_case"] = mysqlrun.input_of(rows[i], histories)
            payload["input"] = payload["first_differing_case"]
            payload["subchecks"] = [mysqlrun.SUBCHECK[x] for x in mism[str(i)]]
        kind = "correspondence:" + ("+".join(broken) if broken else ("parser" if res.get("n_parse_errors") else "shard-error"))
        chk.violation(vflib.write_replay(PROP, kind, payload), True)
    return chk.finish()


def replay(path):
    rp = json.load(open(path))
    inp = rp.get("input") or rp.get("first_differing_case") or {}
    hist = inp.get("history")
    if not hist:
        print("replay file has no history (%s)" % rp.get("kind"))
        print(json.dumps(rp, indent=1)[:3000])
        return 1
    d = os.path.join(CACHE, "replay_C04")
    shutil.rmtree(d, ignore_errors=True)
    os.makedirs(os.path.join(d, "corpus"))
    json.dump({"history": hist}, open(os.path.join(d, "corpus", "replay.json"), "w"))
    err, binp = mysqlrun.build_all()
    if err:
        print(err)
        return 1
    rc, out, _ = vflib.sh([binp, "gen", "--seed", "1", "--evolutions", "0", "--hand", "0", "--modseq", "0", "--no-enum", "1",
                           "--out", d, "--corpus", os.path.join(d, "corpus")])
    rows = [json.loads(l) for l in open(os.path.join(d, "cases.jsonl"))]
    rows = [r for r in rows if r["tag"].startswith("corpus:")]
    mism, verdicts, errors, parse_errors, stats = mysqlrun.eval_dir(d, rows, 40)
    res = {"verdicts": verdicts, "classifiers": mysqlrun.classifier_order()}
    per, unexplained, skipped = mysqlrun.triage(res, mysqlrun.known_entries(PROP))
    last = len(rows) - 1
    for i, r in enumerate(rows):
        print("migration %d: %s" % (i, json.dumps(verdicts.get(str(i), {"code": 0, "rule": "holds"}))))
        for a in r["result"].get("ok", []):
            for s in a:
                print("    " + s)
    bad = [x for x in unexplained if x[0] == last] or (mism.get(str(last)) and [(last, mism[str(last)])]) or errors or parse_errors
    if bad:
        print("still failing: %s" % (bad[:3],))
        print("VIOLATION property=%s replay=%s" % (PROP, path))
        return 1
    print("the stored input no longer fails (or is explained by a recorded finding: %s)" % {k: v for k, v in per.items()})
    return 0
