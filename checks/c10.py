"""C10 — a failed or interrupted migration run changes nothing and can be re-run."""
import migrun

ASSUME = [
    "statements that carry their own transaction control (raw_sql scripts) are modelled by coq/mig/Model/MigratorX.v + Script.v as observed on libsqlite3: a nested BEGIN is refused, COMMIT / END publishes the migrator's transaction and leaves the connection in auto-commit, the final commit then fails; the splitter is naive (no `;` inside string literals or trigger bodies; SAVEPOINT outside a transaction not modelled); the theorems hold on histories without such statements (C10_plain_run_x_is_run)",
    "model = coq/mig/Model/Migrator.v with fault injection at any connection call and process death before any call; engine assumption: transactional DDL (everything issued through the transaction is invisible until COMMIT) — SQLite here, PostgreSQL by documentation, MySQL excluded by the property",
    "tie = K-mig: the REAL generated code over real SQLite; the j-th call of the proxy connection returns an error without reaching the engine (a failure after the engine executed the statement is not injected); the error values rotate over seven classes/texts (neutral, 'database is locked', 'database table is locked', 'Lock wait timeout exceeded', 'table … already exists', 'duplicate column name', a connection error); persistent faults make EVERY execution of one pending statement fail — the model has no retry (C10_first_failure_ends_run), so it is given a fault at the first execution; kills are real (process abort before call j, database file re-opened by a new process, hot journal rolled back by libsqlite3)",
    "natural engine refusals are exercised for the duplicate-object class: an object (table / index / column) that a pending statement creates is created by hand before the run; the model is given the call index at which the engine must refuse (computed from the pending list, not from the observation) and predicts Err + unchanged database; the model cannot branch on an error value at all (C10_failure_value_irrelevant); other natural error classes (constraint violations, missing objects) are not generated",
]


def run(tier, seed):
    return migrun.mig_check("C10", tier, seed, ASSUME)


def replay(path):
    return migrun.mig_replay("C10", path)
