"""C18 — ORM export is reproducible."""
import json, os
import vflib, exprun
from exprun import CLASS_IDX

PROP = "C18"
RULE = ("model sets = corpus/exp + systematic import coverage (27 import features of the Python exporters — every column type, "
        "nullable, FK, index, composite index, composite unique, server default = the lower-case helper `text`: one table per feature, one "
        "per PAIR of features so that every two importable names co-occur, and two all-at-once tables) + FK-shaped generator (several FKs to one table, self references, chains through key columns, "
        "junction tables, one-to-one, odd identifiers) + vcommon loader-profile generator, all loader-accepted and normalised as "
        "`vespertide export` does; every model set also draws a SeaORM export configuration (extraModelDerives / extraEnumDerives with 0, 1 or 3-5 "
        "entries incl. duplicates of configured and built-in derives, enumNamingCase, vesperaSchemaType, table prefix) under which each table is "
        "rendered 6x in one process and once per fresh process; every table of every set is rendered for the 3 ORMs: 4x (SeaORM) / 12x (Python ORMs; every distinct import block "
        "goes to K-exp, order of names included) in one process, under reversed / rotated / "
        "shuffled schema slices, and once in each of 8 fresh processes; non-trivial = distinct (by hash of the models) set with >= 2 tables and >= 1 foreign key")


def verdict(chk, run, tier, seed):
    sites = exprun.sites_check(run)
    exp = exprun.eval_exp(run)
    procs = exprun.fresh_renders(run)
    obs = exprun.jl(os.path.join(run["dir"], "obs.jsonl"))
    classes = exp["classes"]
    findings = [k for k in exprun.load_findings(PROP)]
    open_ids = {k["id"]: k for k in findings if k.get("status") == "open"}

    def cls(case, table, name):
        c = classes.get(str(case))
        return bool(c and table < len(c) and c[table][CLASS_IDX[name]])

    # ---- obligations from the source inventory
    broken = []
    if "error" in sites:
        broken.append(("theorem:HashSites", {"error": sites["error"]}))
    elif sites["undischarged_hash"] or sites["seaorm_hash_sites"]:
        broken.append(("theorem:HashSites", {"undischarged_hash_iteration_sites": sites["undischarged_hash"], "seaorm_sites": sites["seaorm_hash_sites"],
                                             "note": "a HashMap/HashSet iteration that is not in coq/exp/Model/SiteTables.v:hash_allow"}))
    # ---- correspondence (SeaORM declarations, both import blocks)
    rel = {i: [c for c in codes if c % 10 in (1, 2, 3, 6, 9)] for i, codes in exp["mismatches"].items()}
    rel = {i: c for i, c in rel.items() if c}
    if rel or exp["errors"]:
        first = sorted(rel.items(), key=lambda kv: int(kv[0]))[:1]
        payload = {"tier": tier, "seed": seed, "shard_errors": exp["errors"][:2], "mismatching_cases": len(rel)}
        if first:
            i, codes = int(first[0][0]), first[0][1]
            payload["first_differing_case"] = exprun.input_of(run, i, codes[0] // 10)
            payload["subchecks"] = sorted({{1: "K-exp(seaorm declarations)", 2: "K-exp(sqlalchemy imports)", 3: "K-exp(sqlmodel imports)", 6: "K-exp(seaorm configuration lines: derives, serde, table_name, vespera)", 9: "shape"}[c % 10] for c in codes})
        broken.append(("correspondence:K-exp", payload))
    # ---- oracle O-C18
    failing = []   # (case, table, orm, kind, detail)
    for o in obs:
        for j, t in enumerate(o["tables"]):
            for orm, r in t["c18"].items():
                if not r["rep"]:
                    failing.append((o["idx"], j, orm, "repeated-render-differs",
                                    {"distinct_configuration_lines_seen": r.get("variants")} if r.get("variants") else None))
                if not r["perm"]:
                    failing.append((o["idx"], j, orm, "slice-permutation-differs", r.get("perm_diff")))
    if "error" in procs:
        broken.append(("correspondence:fresh-process-render", {"error": procs["error"]}))
    else:
        for dv in procs["differing"]:
            failing.append((dv["case"], dv["table"], dv["orm"], "fresh-process-differs", {"distinct_outputs": dv["distinct_outputs"]}))
    known_hits, unexplained = {k: 0 for k in open_ids}, []
    for (case, table, orm, kind, detail) in failing:
        # Python ORMs: both import blocks are proved oracle free for all tables — any disagreement is a violation
        if orm == "seaorm" and kind == "slice-permutation-differs" and "C18-seaorm-slice-order" in open_ids and cls(case, table, "slice_order"):
            known_hits["C18-seaorm-slice-order"] += 1
        else:
            unexplained.append((case, table, orm, kind, detail))
    for fid, k in open_ids.items():
        wit = "corpus:" + os.path.basename(k.get("witness", ""))
        wit_fails = any(o["tag"] == wit and (c, t, *_r) for o in obs for (c, t, *_r) in failing if c == o["idx"])
        if wit_fails or known_hits.get(fid):
            chk.known_finding(fid, k["what"])
        else:
            chk.notes.append("NOTE stale known finding %s: its witness no longer fails" % fid)
    seen = set()
    for (case, table, orm, kind, detail) in unexplained:
        if (case, table, orm) in seen or len(seen) >= 5:
            continue
        seen.add((case, table, orm))
        rp = vflib.write_replay(PROP, "oracle", {"tier": tier, "seed": seed, "input": exprun.input_of(run, case, table), "orm": orm,
                                                  "oracle": {"kind": kind, "detail": detail}, "replay_cmd": "./vf replay C18 <this file>"})
        chk.violation(rp)
    if broken and not unexplained:
        for kind, payload in broken:
            chk.violation(vflib.write_replay(PROP, kind, payload), True)
    # ---- evidence
    n_tables = sum(len(o["tables"]) for o in obs)
    chk.cov["evaluations"] = len(obs)
    chk.cov["distinct_nontrivial"] = exprun.nontrivial_sets(run)
    chk.cov["rule"] = RULE
    chk.cov["samples"] = exprun.table_samples(run)
    chk.cov["distribution"] = dict(exprun.distribution(run), renders_in_process=n_tables * (4 + 12 + 12),
                                   import_pair_tables=sum(len(o["tables"]) for o in obs if o["tag"] == "import-pairs"),
                                   fresh_process_renders=procs.get("renders_per_process", 0) * procs.get("processes", 0))
    chk.cov["traces_validated_against_impl"] = n_tables
    chk.cov["correspondences"] = {"K-exp(seaorm declarations, import blocks)": {"cases": n_tables, "mismatches": len(rel)},
                                  "HashSites": {"sites": sites.get("hash_sites"), "allow_list_entries": sites.get("hash_entries"),
                                                "undischarged": len(sites.get("undischarged_hash", [])), "stale": sites.get("stale_hash")}}
    in_known = sum(1 for o in obs for j, _ in enumerate(o["tables"]) if cls(o["idx"], j, "datetime"))
    in_slice = sum(1 for o in obs for j, _ in enumerate(o["tables"]) if cls(o["idx"], j, "slice_order"))
    chk.cov["theorem_coverage"] = {"tables": n_tables, "imports_oracle_free applies (no hypothesis)": n_tables,
                                   "tables in the class of the fixed finding C18-datetime-import-order (>= 2 date/time kinds), all reproducible": in_known,
                                   "inside_known_C18_slice_order": in_slice,
                                   "oracle_failures": len(failing), "classified_known": known_hits, "unexplained": len(unexplained)}
    chk.cov["cached_run"] = {"exp": exp.get("cached"), "procs": procs.get("cached")}


def run(tier, seed):
    chk = vflib.Check(PROP, tier, seed)
    chk.assumptions = ["model = coq/exp/Model/Imports.v (import-line computation with a permutation oracle for every iterated HashSet; every collected set is sorted byte-wise before use) and Model/Names.v (SeaORM declarations); tie = K-exp evaluated inside Coq on every rendered table",
                       "HashSites inventory (tools/hashsites.py, syntactic) is regenerated from /repo on every run and compared inside Coq with the tagged allow-list coq/exp/Model/SiteTables.v",
                       "the fresh-process / repeated / permuted renders are a test (O-C18), not a proof; `seaorm_oracle_free` is stated on the three observations (contains, len, get) the SeaORM code makes, not on the whole renderer"]
    chk.cov["trusted_base"] = vflib.TRUSTED_COMMON + [
        "tools/hashsites.py + tools/rustscan.py (syntactic inventory of HashMap/HashSet iteration)",
        "structural parser of the SeaORM text in harness_exp/hexp/src/seaparse.rs",
        "modelled, not verified: std HashSet iteration order = an arbitrary permutation; Unicode case mapping of non-ASCII characters"]
    vflib.proof_stage(chk, "exp", PROP)
    r = exprun.prepare(tier, seed)
    if "build_error" in r:
        chk.violation(vflib.write_replay(PROP, "correspondence:build", {"log": r["build_error"]}), True)
        return chk.finish()
    verdict(chk, r, tier, seed)
    return chk.finish()


def replay(path):
    rp = json.load(open(path))
    inp = rp.get("input") or rp.get("first_differing_case")
    if not inp:
        print("replay file has no input (%s)" % rp.get("kind")); print(json.dumps(rp, indent=1)[:3000])
        return 1
    r = exprun.replay_run(PROP, models=inp["models"], config=inp.get("config"))
    if r is None:
        return 1
    procs = exprun.fresh_renders(r)
    obs = exprun.jl(os.path.join(r["dir"], "obs.jsonl"))
    bad = [d for d in procs.get("differing", [])]
    for o in obs:
        for j, t in enumerate(o["tables"]):
            for orm, x in t["c18"].items():
                if not x["rep"] or not x["perm"]:
                    bad.append({"table": t["name"], "orm": orm, "rep": x["rep"], "perm": x["perm"]})
    print(json.dumps(bad, indent=1)[:3000])
    if bad:
        print("VIOLATION property=%s replay=%s" % (PROP, path))
    return 1 if bad else 0
