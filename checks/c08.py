"""C08 — planning and SQL generation are deterministic functions of file contents."""
import m1run

RULE = ("generated evolutions; for every case the real diff_schemas is re-run under 2 random permutations of the baseline tables and of the model tables "
        "and must return the identical action list; non-trivial = plan with >=2 actions of >=2 kinds or >=2 tables, distinct by hash")


def run(tier, seed):
    return m1run.m1_check("C08", tier, seed, subchecks=[3, 4], oracle_key="c08", known_ids=[], rule=RULE,
                          assumptions=["tie: K-apply(replay) and K-diff(plan_next) evaluated inside Coq on every case",
                                       "proved: sort_plans (the loader's sort_by_key) is independent of listing order for distinct versions; diff_actions is invariant under permutation of both table lists (distinct names)",
                                       "SQL-generation determinism (build_plan_queries) is covered through the SQL layer's correspondence (C02-C04 checks); process-level hash-seed variation is exercised by the exporter checks (C18)"])


def replay(path):
    return m1run.m1_replay("C08", path, "c08")
