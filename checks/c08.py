"""C08 — planning and SQL generation are deterministic functions of file contents."""
import m1run

RULE = ("generated evolutions; for every case the real diff_schemas is re-run under 2 random permutations of the baseline tables and of the model tables "
        "and must return the identical action list; non-trivial = plan with >=2 actions of >=2 kinds or >=2 tables, distinct by hash")


def loader_part(chk, res, rows):
    """the real load_migrations on directories whose enumeration order differs from version order"""
    import json, os
    import vflib
    p = os.path.join(res["dir"], "load.jsonl")
    lrows = [json.loads(l) for l in open(p)] if os.path.exists(p) else []
    hist = [r for r in lrows if "ok" in r]
    chk.cov["correspondences"]["K-load(load_migrations and load_migrations_from_dir vs sort_plans)"] = {"cases": 4 * len(hist), "mismatches": res.get("load_bad")}
    chk.cov["distribution"]["loader_histories"] = len(hist)
    chk.cov["evaluations"] += 4 * len(hist)
    bad = [r for r in hist if not (r["ok"] and r.get("ok_macro", True))]
    for r in bad[:3]:
        chk.violation(vflib.write_replay("C08", "oracle:loader-order", {"input": {"migration_plans": r["plans"]}, "loaded_versions": r["loaded"], "loaded_versions_macro_loader": r.get("loaded_macro"),
                                                                     "note": "the same migration files stored under different file names / creation orders were not replayed in ascending version order"}))
    if res.get("load_bad") and not bad:
        chk.violation(vflib.write_replay("C08", "correspondence:K-load", {"mismatches": res.get("load_bad")}), True)
    errs = [r for r in lrows if "error" in r]
    if errs:
        chk.notes.append("NOTE loader rejected %d stored histories (plan validation; C12's subject)" % len(errs))


def sqlgen_part(chk):
    """SQL generation is a function of the files: the three backend harnesses (real build_plan_queries on generated and corpus
    histories, output = every emitted statement) are run three times, in fresh processes (different hash seeds, different
    allocation), on the same PRNG seed; the two outputs must be byte-identical."""
    import json, os, shutil
    import vflib
    base = os.path.join(vflib.CACHE, "c08_sqlgen_%s_%s" % (chk.tier, chk.seed))
    big = chk.tier == "thorough"
    specs = [("sqlite", "hsqlite", "harness_sqlite", ["--histories", "600" if big else "160", "--steps", "4", "--pending", "100" if big else "40"]),
             ("pg", "hpg", "harness_pg", ["--histories", "600" if big else "160", "--steps", "4"]),
             ("mysql", "hmysql", "harness_mysql", ["--evolutions", "300" if big else "80", "--steps", "3", "--hand", "100" if big else "40", "--modseq", "100" if big else "40", "--exhaustive", "0"])]
    stats = {}
    with vflib.locked("c08_sqlgen_%s_%s" % (chk.tier, chk.seed)):
        shutil.rmtree(base, ignore_errors=True)
        for name, pkg, ws, args in specs:
            rc, out, binp = vflib.build_harness(pkg, ws=ws)
            if rc != 0:
                chk.violation(vflib.write_replay("C08", "correspondence:sqlgen-build", {"harness": pkg, "log": out[-1500:]}), True)
                continue
            runs = []
            # the backend's own corpus plus the histories written for this oracle (many constraints of every kind on one table)
            cdir = os.path.join(base, name + "_corpus")
            os.makedirs(cdir)
            for src in (os.path.join(vflib.ROOT, "corpus", name), os.path.join(vflib.ROOT, "corpus", "sqlgen")):
                for f in sorted(os.listdir(src)):
                    if f.endswith(".json"):
                        shutil.copy(os.path.join(src, f), os.path.join(cdir, f))
            for k in ("a", "b", "c"):
                d = os.path.join(base, name + "_" + k)
                os.makedirs(d)
                rc, out, _ = vflib.sh([binp, "gen", "--seed", str(chk.seed)] + args + ["--out", d, "--corpus", cdir], timeout=1200)
                if rc != 0:
                    chk.violation(vflib.write_replay("C08", "correspondence:sqlgen-run", {"harness": pkg, "log": out[-1500:]}), True)
                    break
                runs.append(open(os.path.join(d, "cases.jsonl"), encoding="utf-8", errors="replace").read().split("\n"))
            if len(runs) < 3:
                continue
            a, b = runs[0], (runs[1] if runs[1] != runs[0] else runs[2])
            stats[name] = {"rows": len(a) - 1, "identical": a == b}
            chk.cov["evaluations"] += 3 * (len(a) - 1)
            if a != b:
                i = next((i for i, (x, y) in enumerate(zip(a, b)) if x != y), min(len(a), len(b)))
                ra, rb = (json.loads(a[i]) if i < len(a) and a[i] else None), (json.loads(b[i]) if i < len(b) and b[i] else None)
                chk.violation(vflib.write_replay("C08", "oracle:sqlgen-repeatable", {
                    "input": {"backend": name, "case": {k: v for k, v in (ra or {}).items() if k not in ("sqlite", "postgres", "mysql", "sql", "stmts")}},
                    "first_run": ra, "second_run": rb,
                    "note": "the same histories rendered by build_plan_queries in two fresh processes gave different statements"}))
        shutil.rmtree(base, ignore_errors=True)
    chk.cov["correspondences"]["O-sqlgen(build_plan_queries twice, fresh processes, 3 backends)"] = {"cases": sum(v["rows"] for v in stats.values()), "mismatches": sum(0 if v["identical"] else 1 for v in stats.values())}
    chk.cov["distribution"]["sqlgen_rows"] = {k: v["rows"] for k, v in stats.items()}


def extra_parts(chk, res, rows):
    loader_part(chk, res, rows)
    sqlgen_part(chk)


def run(tier, seed):
    return m1run.m1_check("C08", tier, seed, subchecks=[3, 4], oracle_key="c08", known_ids=[], rule=RULE, extra=extra_parts,
                          assumptions=["tie: K-apply(replay) and K-diff(plan_next) evaluated inside Coq on every case",
                                       "proved: sort_plans (the loader's sort_by_key) is independent of listing order for distinct versions; diff_actions is invariant under permutation of both table lists (distinct names)",
                                       "SQL-generation determinism (build_plan_queries): the three backend harnesses run the real generator twice in fresh processes on the same histories and the outputs are compared byte for byte (a test, not a proof: the proofs are about the planner and the loader's sort); statement-level equality with the Coq SQL models is the business of C02-C04"])


def replay(path):
    return m1run.m1_replay("C08", path, "c08")
