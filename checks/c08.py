"""C08 — planning and SQL generation are deterministic functions of file contents."""
import m1run

RULE = ("generated evolutions; for every case the real diff_schemas is re-run under 2 random permutations of the baseline tables and of the model tables "
        "and must return the identical action list; non-trivial = plan with >=2 actions of >=2 kinds or >=2 tables, distinct by hash")


def loader_part(chk, res, rows):
    """the real load_migrations on directories whose enumeration order differs from version order"""
    import json, os
    import vflib
    p = os.path.join(res["dir"], "load.jsonl")
    lrows = [json.loads(l) for l in open(p)] if os.path.exists(p) else []
    hist = [r for r in lrows if "ok" in r]
    chk.cov["correspondences"]["K-load(load_migrations and load_migrations_from_dir vs sort_plans)"] = {"cases": 4 * len(hist), "mismatches": res.get("load_bad")}
    chk.cov["distribution"]["loader_histories"] = len(hist)
    chk.cov["evaluations"] += 4 * len(hist)
    bad = [r for r in hist if not (r["ok"] and r.get("ok_macro", True))]
    for r in bad[:3]:
        chk.violation(vflib.write_replay("C08", "oracle:loader-order", {"input": {"migration_plans": r["plans"]}, "loaded_versions": r["loaded"], "loaded_versions_macro_loader": r.get("loaded_macro"),
                                                                     "note": "the same migration files stored under different file names / creation orders were not replayed in ascending version order"}))
    if res.get("load_bad") and not bad:
        chk.violation(vflib.write_replay("C08", "correspondence:K-load", {"mismatches": res.get("load_bad")}), True)
    errs = [r for r in lrows if "error" in r]
    if errs:
        chk.notes.append("NOTE loader rejected %d stored histories (plan validation; C12's subject)" % len(errs))


def run(tier, seed):
    return m1run.m1_check("C08", tier, seed, subchecks=[3, 4], oracle_key="c08", known_ids=[], rule=RULE, extra=loader_part,
                          assumptions=["tie: K-apply(replay) and K-diff(plan_next) evaluated inside Coq on every case",
                                       "proved: sort_plans (the loader's sort_by_key) is independent of listing order for distinct versions; diff_actions is invariant under permutation of both table lists (distinct names)",
                                       "SQL-generation determinism (build_plan_queries) is covered through the SQL layer's correspondence (C02-C04 checks); process-level hash-seed variation is exercised by the exporter checks (C18)"])


def replay(path):
    return m1run.m1_replay("C08", path, "c08")
