"""C05 — populated databases: migrations succeed and preserve rows (SQLite on libsqlite3, foreign_keys ON and OFF)."""
import sqliterun


def run(tier, seed):
    return sqliterun.c05_check(tier, seed)


def replay(path):
    return sqliterun.replay_history("C05", path, sqliterun.c05_replay_oracle)
