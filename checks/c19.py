"""C19 — database object names are symmetric between create and drop and never collide.
Naming-algebra half (m1 layer) + per-backend symmetry parts when the backend layers provide them."""
import glob, importlib, json, os, shutil
import vflib
from vflib import ROOT, CACHE

KNOWN_ID = "C19-derived-name-collisions"


def run(tier, seed):
    chk = vflib.Check("C19", tier, seed)
    chk.assumptions = ["naming builders modelled in coq/m1/Model/Apply.v (name_with …), descriptors and namespaces in Model/NamePlain.v; tie = K-name evaluated inside Coq",
                       "namespaces are a documented over-approximation across backends (NamePlain.v)",
                       "create/drop symmetry is proved per backend in coq/<backend>/Properties/C19_<backend>.v and exercised by the backend checks' SQL correspondence; parts that are not built yet are listed under coverage.backend_parts"]
    chk.cov["trusted_base"] = vflib.TRUSTED_COMMON
    vflib.proof_stage(chk, "m1", "C19")
    rc, out, binp = vflib.build_harness("hm1")
    if rc != 0:
        chk.violation(vflib.write_replay("C19", "correspondence:build", {"log": out[-2000:]}), True)
        return chk.finish()
    d = os.path.join(CACHE, "c19_%s_%s" % (tier, seed))
    shutil.rmtree(d, ignore_errors=True)
    n, sets = (3000, 1500) if tier == "thorough" else (600, 300)
    rc, out, _ = vflib.sh([binp, "names", "--seed", str(seed), "--n", str(n), "--sets", str(sets), "--out", d])
    if rc != 0:
        chk.violation(vflib.write_replay("C19", "correspondence:harness", {"log": out[-2000:]}), True)
        return chk.finish()
    res = vflib.run_shards("m1", d, "*_names_*.v")
    kname_bad, explained = None, None
    for f, rc, o, dt in res:
        blocks = vflib.parse_eval_outputs(o)
        if rc != 0 or not blocks:
            chk.violation(vflib.write_replay("C19", "correspondence:shard-error", {"shard": os.path.basename(f), "log": o[-1500:]}), True)
            continue
        if os.path.basename(f).startswith("cases_names"):
            kname_bad = (kname_bad or 0) + int(blocks[0].replace("%nat", "").strip() or 0)
        else:
            explained = vflib.parse_bool_list(blocks[0])
    rows = [json.loads(l) for l in open(os.path.join(d, "names.jsonl"))]
    colls = [(r, c) for r in rows for c in r["collisions"]]
    chk.cov["evaluations"] = n + len(rows)
    chk.cov["distinct_nontrivial"] = len({json.dumps(r["models"], sort_keys=True) for r in rows if r["n_objects"] >= 2})
    chk.cov["rule"] = ("%d random object descriptors over an underscore-rich alphabet for K-name; %d generated loader-accepted model sets (two thirds with a collision-prone shape injected) "
                       "whose named objects (tables, helper tables, indexes, uniques, foreign keys, enum types, enum checks) are named with the REAL builders and searched for equal names within a namespace; "
                       "non-trivial = a model set with >= 2 named objects, distinct by content") % (n, len(rows))
    chk.cov["samples"] = [{"models": r["models"], "collisions": r["collisions"]} for r, _ in colls[:2]] or [{"models": rows[0]["models"]}]
    chk.cov["correspondences"] = {"K-name": {"cases": n, "mismatches": kname_bad}}
    chk.cov["distribution"] = {"model_sets": len(rows), "colliding_pairs": len(colls)}
    chk.cov["traces_validated_against_impl"] = n
    if kname_bad:
        chk.violation(vflib.write_replay("C19", "correspondence:K-name", {"mismatches": kname_bad, "note": "a naming builder no longer agrees with the model; see %s" % d}), True)
    known = [k for k in vflib.load_known() if k["property"] == "C19" and k.get("status") == "open"]
    if colls:
        # a collision the implementation produces is 'known' only if the MODEL's naming reproduces it
        unexplained = [colls[i] for i, e in enumerate(explained or []) if not e] if explained is not None and len(explained) >= len(colls) else colls
        if known and len(unexplained) < len(colls):
            chk.known_finding(known[0]["id"], known[0]["what"])
        for r, c in unexplained[:3]:
            chk.violation(vflib.write_replay("C19", "oracle", {"input": {"models": r["models"]}, "collision": c}))
        if not known:
            for r, c in colls[:3]:
                chk.violation(vflib.write_replay("C19", "oracle", {"input": {"models": r["models"]}, "collision": c}))
    chk.cov["theorem_coverage"] = {"collisions_found": len(colls), "explained_by_model_naming": sum(1 for e in (explained or []) if e)}
    # backend symmetry parts
    parts = {}
    for mod, fn, gate in (("sqliterun", "c19_part", "C02"), ("pgrun", "c19_part", "C03"), ("mysqlrun", "c19_part", "C04")):
        # a backend part counts only once its layer is declared finished (its main property has a props file)
        if not os.path.exists(os.path.join(ROOT, "props", gate + ".json")):
            parts[mod] = "layer not finished yet (props/%s.json absent)" % gate
            continue
        try:
            m = importlib.import_module(mod)
            if hasattr(m, fn):
                r = getattr(m, fn)(tier, seed)
                parts[mod] = {k: r.get(k) for k in ("ok", "obligations", "discharged", "details")}
                chk.cov["obligations"] += int(r.get("obligations", 0))
                chk.cov["discharged"] += int(r.get("discharged", 0))
                if not r.get("ok", False):
                    chk.violation(vflib.write_replay("C19", "theorem:%s-symmetry" % mod, {"details": r.get("details")}), not r.get("failing_input"))
            else:
                parts[mod] = "not provided yet"
        except ModuleNotFoundError:
            parts[mod] = "layer not built yet"
        except Exception as e:  # a broken backend part must not hide the naming half
            parts[mod] = "error: %s" % e
    chk.cov["backend_parts"] = parts
    return chk.finish()


def replay(path):
    rp = json.load(open(path))
    print(json.dumps(rp.get("collision") or rp, indent=1)[:2000])
    return 1 if rp.get("kind") == "oracle" else 0
