"""C13 — all CLI views of pending work agree; history is append-only.
Proofs: coq/cli/Properties/C13.v.  Tie: K-cli (the real binary in temporary projects vs. coq/cli/Model/Project.v,
compared inside Coq).  Oracle O-C13: the property's clauses checked on the binary's behaviour."""
import collections, hashlib, json, os, shutil
import vflib, clirun
from vflib import ROOT, CACHE

CLS = []

RULE = ("projects = corpus witnesses (corpus/cli/c13_*.json) + evolutions of loader-accepted model sets from the shared generator, each under a drawn "
        "configuration (prefix ''/'app_', json/yaml/yml model and migration files, 8 filename patterns, default/custom directories, files in sub-directories); "
        "plus 63 targeted streams around the fill logic (a column becoming NOT NULL with its default kept / removed / changed / added / absent, or added NOT NULL with / without default; text, integer, enum; no terminal, --fill-with, pty); "
        "per model set the sequence diff, sql x3 backends, status, log x3 backends, revision (fill values via --fill-with, no terminal, or a pty answering prompts with their defaults) "
        "is run twice (before and after the revision). One evaluation = one such observation of a project state. "
        "non-trivial = pending plan with >= 2 actions or stored history with >= 2 migrations; distinct by hash of (config, model files, migration files)")


def input_of(r):
    return {"config": r["config"], "models": r["models"], "migrations": r["migrations"], "message": r["message"], "fills": r["fills"],
            "tty": r["tty"], "backend": r["backend"],
            "how_to_replay": "write vespertide.json, the model files and the migration files, then run vespertide diff|sql|status|log|revision -m <message> [--fill-with ..]; or ./vf replay C13 <file>"}


def sample_of(r):
    o = r["obs"]
    return {"tag": r["tag"], "config": r["config"], "model_files": sorted(r["models"]), "migration_files": sorted(r["migrations"]),
            "revision": {"message": r["message"], "fill_with": r["fills"], "pty": r["tty"], "result": o["rev"], "added": o["rev_added"], "changed": o["rev_changed"]},
            "diff": o["diff"], "sql": o["sql"], "status": o["status"], "log": o["log"]}


def run(tier, seed):
    chk = vflib.Check("C13", tier, seed)
    chk.assumptions = [
        "model = coq/cli/Model/Project.v over the M1 schema algebra (VV.M1: plan_next, replay, validate_migration_plan, with_prefix, revision fill); tie = K-cli evaluated inside Coq on every observed project state",
        "a project is what the loader parses: files that do not parse are outside the model; SQL text is outside this layer (cmd_sql / cmd_log are modelled down to the action list and baseline handed to build_plan_queries; a failure or panic inside SQL generation is accepted as 'outside')",
        "baselines handed to the SQL generator are not observable from the binary and are tied only through VV.M1's K-apply; the macro side of log_equals_runtime is tied by reading (line anchors) and by layer mig's K-mig, not here",
        "statements: `log` / `sql` are run for postgres, mysql and sqlite and the statement texts they print per action must equal those built by harness_cli/hcli render (the macro's loop: macro loader, with_prefix, build_plan_queries against the baseline accumulated BEFORE the migration, real apply_action); the model's baselines are compared with hcli's inside Coq (K-baseline, sub-checks 6 and 7)",
        "refusal / missing terminal are told apart from other errors by one stable substring of stderr each (oracle only); the correspondence compares exit status, parsed action lines, written file name, parsed written plan and files added/changed",
        "sanitize_comment is exact for ASCII; bytes >= 128 are kept unchanged (generators avoid upper-case non-ASCII and non-alphanumeric non-ASCII in messages)"]
    chk.cov["trusted_base"] = vflib.TRUSTED_COMMON + [
        "harness_cli/hcli (re-parses every file with the serde calls the loader uses and prints Gallina terms via harness/common), checks/clirun.py (drives the binary, parses `diff` / `sql` / `log` / `status` lines into (kind, names) tuples, pty driver)",
        "clap argument parsing, dialoguer prompts, std::fs::read_dir order (taken from os.scandir on the same directory)"]
    vflib.proof_stage(chk, "cli", "C13")
    res = clirun.run_cli(tier, seed)
    if "build_error" in res:
        rp = vflib.write_replay("C13", "correspondence:build", {"log": res["build_error"]})
        chk.violation(rp, True)
        return chk.finish()
    rows = res["rows"]
    chk.cov["evaluations"] = len(rows)
    seen = set()
    for r in rows:
        d = r["obs"]["diff"]
        if (d[0] == "changes" and len(d[1]) >= 2) or len(r["migrations"]) >= 2:
            seen.add(hashlib.sha1(json.dumps([r["config"], r["models"], r["migrations"]], sort_keys=True).encode()).hexdigest())
    chk.cov["distinct_nontrivial"] = len(seen)
    chk.cov["rule"] = RULE
    nz = [r for r in rows if r["obs"]["diff"][0] == "changes" and len(r["obs"]["diff"][1]) >= 2 and r["obs"]["rev"] == "wrote"]
    chk.cov["samples"] = [sample_of(r) for r in (nz[:2] or rows[:1])]
    chk.cov["traces_validated_against_impl"] = len(rows)
    dist = collections.Counter()
    kinds = collections.Counter()
    for r in rows:
        c, o = r["config"], r["obs"]
        dist["prefix:" + (c.get("prefix") or "''")] += 1
        dist["migration_format:" + c.get("migrationFormat", "json")] += 1
        dist["model_ext:" + ",".join(sorted({os.path.splitext(m)[1] for m in r["models"]}))] += 1
        dist["pattern:" + c.get("migrationFilenamePattern", "%04v_%m")] += 1
        dist["dirs:" + c["modelsDir"]] += 1
        dist["migrations_dir:" + c["migrationsDir"]] += 1
        dist["revision:" + o["rev"] + (":refused" if o["rev_refused"] else ":no-terminal" if o["rev_noterm"] else "")] += 1
        dist["revision_input:" + ("pty" if r["tty"] else "fill-with" if r["fills"] else "none")] += 1
        dist["status:" + o["status"]] += 1
        dist["diff:" + o["diff"][0]] += 1
        dist["sql:" + o["sql"][0]] += 1
        dist["log:" + o["log"][0]] += 1
        dist["history_len:%d" % min(len(r["migrations"]), 5)] += 1
        if o["diff"][0] == "changes":
            for a in o["diff"][1]:
                kinds[a[0]] += 1
    stm = collections.Counter()
    for r in rows:
        for k, v in r["obs"].get("stmt_compared", {}).items():
            stm[k] += v
        stm["streams:" + r["tag"].split(":")[0]] += 1
    chk.cov["distribution"] = {"statement_lists_compared_with_runtime_rendering (x3 backends)": dict(stm), "observations": dict(dist), "action_kinds_listed_by_diff": dict(kinds), "skipped_unparsable": res["skipped"],
                               "drive_s": res["drive_s"]}
    attributed, unexplained = clirun.verdict(chk, "C13", res, CLS, input_of, "K-cli")
    # share of observations that fall under a proved positive theorem rather than being merely tested
    n = max(len(rows), 1)
    chk.cov["theorem_coverage"].update({
        "diff_iff_revision, status_sync_iff_no_diff, revision_output_loadable, revision_append_only (all projects)": 1.0,
        "log_equals_runtime (every stored plan validates)": round(sum(1 for r in rows if r["obs"]["log"][0] != "err") / n, 3),
        "sql_renders_diff (prefix '')": round(sum(1 for r in rows if not r["config"].get("prefix")) / n, 3),
        "sql_renders_prefixed_diff_without_history (no stored migration)": round(sum(1 for r in rows if not r["migrations"]) / n, 3),
        "revision_append_only / revision_never_overwrites (every pattern, every history)": 1.0,
        "default_pattern_never_refused (default pattern)": round(sum(1 for r in rows if r["config"].get("migrationFilenamePattern", "%04v_%m") == "%04v_%m") / n, 3)})
    return chk.finish()


def replay(path):
    rp = json.load(open(path))
    inp = rp.get("input") or rp.get("first_differing_case")
    if not inp:
        print("replay file has no input (%s)" % rp.get("kind"))
        print(json.dumps(rp, indent=1)[:3000])
        return 1
    hcli, err = clirun.build_all()
    if err:
        print(err)
        return 1
    pdir = os.path.join(CACHE, "cli", "replay_C13")
    shutil.rmtree(pdir, ignore_errors=True)
    cfg = inp["config"]
    clirun.write_project(pdir, cfg)
    clirun.write_models(pdir, cfg, inp["models"])
    gd = os.path.join(pdir, cfg["migrationsDir"])
    os.makedirs(gd, exist_ok=True)
    for n, t in inp["migrations"].items():
        open(os.path.join(gd, n), "w").write(t)
    mode = "pty" if inp.get("tty") and not inp.get("fills") else (inp.get("fills") or "none")
    a = clirun.observe(hcli, pdir, cfg, inp["message"], mode, inp.get("backend", "postgres"), "replay:0:a")
    b = clirun.observe(hcli, pdir, cfg, "next", "all", inp.get("backend", "postgres"), "replay:0:b")
    if "skip" in a:
        print("project does not parse: %s" % a["skip"])
        return 1
    fails = clirun.oracle_c13(a, b if "skip" not in b else None)
    mism, classes, errors = clirun.run_coq("CliCorr", "cli_case", "cli_mismatches_from", "classify_cli", [a["term"]],
                                           os.path.join(pdir, "coq"), "cases_cli", 5)
    for clause, k, text in fails:
        print("oracle: %s: %s" % (clause, text))
    print("correspondence K-cli: %s" % ("differs in sub-checks %s" % mism[0] if mism else "agrees" if not errors else errors))
    want = rp.get("clause")
    bad = [f for f in fails if want is None or f[0] == want] if rp.get("kind") == "oracle" else (list(mism) or errors)
    if bad:
        print("VIOLATION property=C13 replay=%s" % path)
        return 1
    return 0
