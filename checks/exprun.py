"""Shared runner for layer EXP (C16, C17, C18): generate cases with hexp against /repo's working tree, evaluate
the models on them inside Coq, run the implementation-side oracles.  Every stage caches its result in the run
directory, which is keyed by a hash of everything the result depends on, so the three checks of one sweep
share the work and a changed tree is never served stale results."""
import ast, builtins, collections, glob, hashlib, json, os, re, shutil, subprocess, sys, time
from concurrent.futures import ThreadPoolExecutor
import vflib
from vflib import ROOT, CACHE

LAYER, WS, PKG = "exp", "harness_exp", "hexp"
CLASS_IDX = {"clash": 0, "fk_cycle": 1, "datetime": 2, "slice_order": 3, "fk_closed": 4,
             "py_ident": 5, "py_dup": 6, "py_empty_import": 7, "py_text": 8, "py_sqlmodel_text": 9, "rust_ident": 10, "py_sqlmodel_float_word": 11, "seaorm_doc_cr": 12}
REPO_CRATES = ["core", "planner", "query", "exporter", "naming", "config", "loader", "cli"]


def tree_hash(paths):
    h = hashlib.sha1()
    for base in paths:
        if os.path.isfile(base):
            h.update(base.encode()); h.update(open(base, "rb").read())
            continue
        for f in sorted(glob.glob(os.path.join(base, "**", "*"), recursive=True)):
            if os.path.isfile(f) and "/target/" not in f and "/.git/" not in f and "/Gen/" not in f \
                    and not f.endswith((".vo", ".vok", ".vos", ".glob", ".aux")):
                h.update(f.encode())
                h.update(open(f, "rb").read())
    return h.hexdigest()[:16]


def sizes(tier):
    if tier == "thorough":
        return {"n": 700, "disp": 1500, "evolutions": 300, "steps": 4, "per_shard": 25, "procs": 8, "max_cyclic": 8}
    return {"n": 140, "disp": 200, "evolutions": 45, "steps": 3, "per_shard": 12, "procs": 8, "max_cyclic": 1}


# ------------------------------------------------------------------------------------------ known findings
def load_findings(prop):
    """open / fixed entries for a property: the committed known_findings.json first, then this layer's proposals
    (props/known_<prop>.proposed.json — same format; an id present in both is taken from the committed file)."""
    out, seen = [], set()
    for k in vflib.load_known():
        if k.get("property") == prop:
            out.append(k); seen.add(k["id"])
    p = os.path.join(ROOT, "props", "known_%s.proposed.json" % prop)
    if os.path.exists(p):
        for k in json.load(open(p)).get("findings", []):
            if k.get("property") == prop and k["id"] not in seen:
                out.append(k)
    return out


# ------------------------------------------------------------------------------------------ preparation
@vflib.serialized("run_exp")
def prepare(tier, seed):
    sz = sizes(tier)
    rc, out, binp = vflib.build_harness(PKG, ws=WS)
    if rc != 0:
        return {"build_error": out[-3000:]}
    key = tree_hash(["/repo/crates/vespertide-%s" % c for c in REPO_CRATES] + ["/repo/Cargo.lock",
                    os.path.join(ROOT, "harness", "common"), os.path.join(ROOT, WS, PKG), os.path.join(ROOT, WS, "Cargo.toml"),
                    os.path.join(ROOT, "coq", "m1", "Base"), os.path.join(ROOT, "coq", "m1", "Model"),
                    os.path.join(ROOT, "coq", LAYER, "Model"), os.path.join(ROOT, "coq", LAYER, "Corr"),
                    os.path.join(ROOT, "corpus", LAYER), os.path.join(ROOT, "checks", "exprun.py"),
                    os.path.join(ROOT, "tools")])
    d = os.path.join(CACHE, "exprun", "%s_%s_%s" % (key, tier, seed))
    meta_p = os.path.join(d, "meta.json")
    if not os.path.exists(meta_p):
        shutil.rmtree(d, ignore_errors=True)
        for old in glob.glob(os.path.join(CACHE, "exprun", "*")):
            if old != d:
                shutil.rmtree(old, ignore_errors=True)
        os.makedirs(d)
        t0 = time.time()
        rc, out, _ = vflib.sh([binp, "gen", "--seed", str(seed), "--n", str(sz["n"]), "--disp", str(sz["disp"]),
                               "--evolutions", str(sz["evolutions"]), "--steps", str(sz["steps"]), "--per-shard", str(sz["per_shard"]),
                               "--max-cyclic", str(sz["max_cyclic"]), "--out", d, "--corpus", os.path.join(ROOT, "corpus", LAYER)], timeout=1500)
        if rc != 0 or not os.path.exists(meta_p):
            return {"build_error": "hexp gen failed: " + out[-2000:]}
        m = json.load(open(meta_p)); m["gen_s"] = round(time.time() - t0, 1)
        json.dump(m, open(meta_p, "w"))
    return {"dir": d, "bin": binp, "meta": json.load(open(meta_p)), "sizes": sz}


def jl(path):
    return [json.loads(l) for l in open(path) if l.strip()]


def cached(d, name, fn):
    p = os.path.join(d, name)
    if os.path.exists(p):
        r = json.load(open(p)); r["cached"] = True
        return r
    r = fn()
    json.dump(r, open(p, "w"))
    r["cached"] = False
    return r


def coq_term_to_json(term):
    """'[[true; false]; [..]]' / '[(3, [1; 4])]' -> python lists"""
    t = term.replace("%nat", "").replace(";", ",").replace("(", "[").replace(")", "]")
    return json.loads(t)


# ------------------------------------------------------------------------------------------ correspondences in Coq
def eval_shards(run, stem, per):
    """-> {mismatches: {global idx: [codes]}, classes: [per case], errors: []}"""
    d = run["dir"]
    res = vflib.run_shards(LAYER, d, stem + "_*.v")
    mism, classes, errors = {}, {}, []
    for f, rc, o, dt in sorted(res):
        k = int(re.search(r"_(\d+)\.v$", f).group(1))
        if rc != 0:
            errors.append({"shard": os.path.basename(f), "log": o[-1500:]})
            continue
        blocks = vflib.parse_eval_outputs(o)
        try:
            for (i, codes) in coq_term_to_json(blocks[0]):
                mism[str(i)] = codes
            cl = coq_term_to_json(blocks[1])
            for j, c in enumerate(cl):
                classes[str(k * per + j)] = c
        except Exception as e:  # unparsable output counts as a shard error
            errors.append({"shard": os.path.basename(f), "log": "parse: %s\n%s" % (e, o[-800:])})
    return {"mismatches": mism, "classes": classes, "errors": errors}


def eval_exp(run):
    return cached(run["dir"], "r_exp.json", lambda: eval_shards(run, "cases_exp", run["meta"]["per_shard"]))


def eval_disp(run):
    return cached(run["dir"], "r_disp.json", lambda: eval_shards(run, "cases_disp", run["meta"]["disp_per_shard"]))


def classify_terms(run, name, imports, fn, terms):
    """Evaluate the Gallina function `fn` (string) on each term -> list of python values (or None on failure)."""
    if not terms:
        return []
    d = os.path.join(run["dir"], "classify")
    os.makedirs(d, exist_ok=True)
    f = os.path.join(d, name + ".v")
    body = "From VV.EXP Require Import %s.\n" % imports
    for t in terms:
        body += "Eval vm_compute in (%s) (%s).\n" % (fn, t)
    open(f, "w").write(body)
    rc, out, _ = vflib.sh(["timeout", "900", "coqc", "-noglob"] + vflib.q_flags(LAYER) + [f], cwd=d, timeout=960)
    if rc != 0:
        return None
    return [coq_term_to_json(b) for b in vflib.parse_eval_outputs(out)]


# ------------------------------------------------------------------------------------------ source inventories
def sites_check(run):
    def go():
        g = os.path.join(ROOT, "coq", LAYER, "Gen")
        os.makedirs(g, exist_ok=True)
        for tool, out in (("panicsites.py", "PanicSites.v"), ("hashsites.py", "HashSites.v")):
            rc, o, _ = vflib.sh([sys.executable, os.path.join(ROOT, "tools", tool), "--repo", vflib.REPO, "--out", os.path.join(g, out),
                                 "--json", os.path.join(run["dir"], out.replace(".v", ".json"))])
            if rc != 0:
                return {"error": "%s failed: %s" % (tool, o[-1500:])}
        open(os.path.join(g, "SitesCheck.v"), "w").write(
            "(* GENERATED driver: compares the regenerated inventories with the committed tables. *)\n"
            "From VV.EXP Require Import SiteTables.\nFrom VV.EXPGEN Require Import PanicSites HashSites.\n"
            "Eval vm_compute in undischarged_panic panic_sites.\nEval vm_compute in undischarged_hash hash_sites.\n"
            "Eval vm_compute in stale_panic panic_sites.\nEval vm_compute in stale_hash hash_sites.\n"
            "Eval vm_compute in seaorm_sites hash_sites.\n"
            "Eval vm_compute in [List.length panic_sites; List.length hash_sites; List.length unreviewed_sites; List.length site_discharge; List.length hash_allow].\n")
        flags = vflib.q_flags(LAYER) + ["-Q", g, "VV.EXPGEN"]
        for f in ("PanicSites.v", "HashSites.v", "SitesCheck.v"):
            rc, o, _ = vflib.sh(["timeout", "600", "coqc", "-noglob"] + flags + [os.path.join(g, f)], cwd=g, timeout=660)
            if rc != 0:
                return {"error": "coqc %s: %s" % (f, o[-1500:])}
        b = vflib.parse_eval_outputs(o)

        def sites(term):
            return re.findall(r"\(((?:\"[^\"]*\",\s*)+\d+)\)", term)
        counts = coq_term_to_json(b[5])
        return {"undischarged_panic": sites(b[0]), "undischarged_hash": sites(b[1]), "stale_panic": sites(b[2]),
                "stale_hash": sites(b[3]), "seaorm_hash_sites": sites(b[4]),
                "panic_sites": counts[0], "hash_sites": counts[1], "unreviewed": counts[2], "table_entries": counts[3], "hash_entries": counts[4]}
    return cached(run["dir"], "r_sites.json", go)


# ------------------------------------------------------------------------------------------ Python half of C17
PY_BUILTINS = set(dir(builtins))


def py_check(text, columns):
    """-> list of failure kinds for one generated Python module"""
    try:
        tree = ast.parse(text)
    except (SyntaxError, ValueError) as e:
        return [{"kind": "syntax", "detail": "%s (line %s)" % (getattr(e, "msg", e), getattr(e, "lineno", "?"))}]
    bad = []
    defined = set()
    for node in tree.body:
        if isinstance(node, ast.ImportFrom):
            for a in node.names:
                defined.add(a.asname or a.name)
        elif isinstance(node, ast.Import):
            for a in node.names:
                defined.add((a.asname or a.name).split(".")[0])
    classes = [n for n in tree.body if isinstance(n, ast.ClassDef)]
    seen_classes = {}
    for c in classes:
        dump = ast.dump(c)
        if c.name in seen_classes and seen_classes[c.name] != dump:
            bad.append({"kind": "dup-class", "detail": c.name})
        seen_classes[c.name] = dump
    # names: module level in order; a class body may use its own earlier attributes
    for node in tree.body:
        local = set()
        if isinstance(node, ast.ClassDef):
            for b in node.bases + [k.value for k in node.keywords]:
                for n in ast.walk(b):
                    if isinstance(n, ast.Name) and n.id not in defined and n.id not in PY_BUILTINS:
                        bad.append({"kind": "unresolved-name", "detail": n.id})
            targets = []
            for st in node.body:
                for n in ast.walk(st):
                    if isinstance(n, ast.Name) and isinstance(n.ctx, ast.Load) and n.id not in defined \
                            and n.id not in PY_BUILTINS and n.id not in local and n.id != node.name:
                        bad.append({"kind": "unresolved-name", "detail": n.id})
                if isinstance(st, ast.AnnAssign) and isinstance(st.target, ast.Name):
                    targets.append(st.target.id); local.add(st.target.id)
                elif isinstance(st, ast.Assign):
                    for t in st.targets:
                        if isinstance(t, ast.Name):
                            targets.append(t.id); local.add(t.id)
            dups = [t for t, c in collections.Counter(targets).items() if c > 1]
            for t in dups:
                bad.append({"kind": "dup-member", "detail": "%s.%s" % (node.name, t)})
            defined.add(node.name)
        else:
            for n in ast.walk(node):
                if isinstance(n, ast.Name) and isinstance(n.ctx, ast.Load) and n.id not in defined and n.id not in PY_BUILTINS:
                    bad.append({"kind": "unresolved-name", "detail": n.id})
    # the table class is the last one: every model column exactly once as an annotated attribute
    if classes:
        ann = [st.target.id for st in classes[-1].body if isinstance(st, ast.AnnAssign) and isinstance(st.target, ast.Name)]
        cnt = collections.Counter(ann)
        for c in columns:
            if cnt.get(c, 0) != 1:
                bad.append({"kind": "column-count", "detail": "%s x%d" % (c, cnt.get(c, 0))})
        for a in cnt:
            if a not in columns:
                bad.append({"kind": "extra-attribute", "detail": a})
    else:
        bad.append({"kind": "no-class", "detail": ""})
    return bad


# the mirror rules, written from the model's type names and the exporters' documented conventions (not from their code)
PY_TYPE_TABLE = {
    "smallint": ("int", "SmallInteger"), "integer": ("int", "Integer"), "bigint": ("int", "BigInteger"),
    "real": ("float", "Float"), "double precision": ("float", "Float"), "text": ("str", "Text"), "boolean": ("bool", "Boolean"),
    "date": ("date", "Date"), "time": ("time", "Time"), "timestamp": ("datetime", "DateTime"), "timestamptz": ("datetime", "DateTime"),
    "interval": (("str", "timedelta"), "Interval"), "bytea": ("bytes", "LargeBinary"), "uuid": ("UUID", "Uuid"), "json": ("dict", "JSON"),
    "inet": ("str", "String"), "cidr": ("str", "String"), "macaddr": ("str", "String"), "xml": ("str", "Text"),
    "varchar": ("str", "String"), "char": ("str", "String"), "numeric": ("Decimal", "Numeric"),
    "custom": (None, None),                      # ambiguous: not judged
    "enum:string": ("<enum class defined in the module>", "Enum"), "enum:integer": ("<enum class defined in the module>", "Integer"),
}
PY_MIRROR_RULES = {
    "nullability": "SQLModel: annotation is Optional[T] iff column.nullable; SQLAlchemy: Mapped[Optional[T]] iff column.nullable, and keyword nullable=<column.nullable> on every non-key column (key columns carry primary_key=True and no nullable keyword)",
    "type": "base Python type and SQLAlchemy column type by PY_TYPE_TABLE[model type name] (interval: str or timedelta accepted; custom: not judged; enum: a class of the module deriving enum.Enum / enum.IntEnum)",
    "primary_key": "primary_key=True exactly on the columns of the table's primary_key constraint",
    "foreign_key": "single-column FK (columns and ref_columns of length 1): SQLAlchemy positional ForeignKey(\"<ref_table>.<ref_column>\"), SQLModel foreign_key=\"<ref_table>.<ref_column>\"; absent otherwise (several FKs on one column: any of them)",
    "unique": "unique=True iff the column has a single-column unique constraint and is not a key column",
    "index": "SQLModel: index=True iff the column has a single-column index constraint and is not a key column (SQLAlchemy lists indexes in __table_args__: not judged)",
    "default": "SQLAlchemy: server_default keyword present iff the column has a default; SQLModel: default=<non-None> or sa_column_kwargs server_default present iff the column has a default, default=None iff it has none and is nullable",
    "type_table": {k: list(v) if isinstance(v, tuple) else v for k, v in PY_TYPE_TABLE.items()},
}


def _type_key(ty):
    if isinstance(ty, str):
        return ty
    k = ty.get("kind")
    if k == "enum":
        vals = ty.get("values") or []
        return "enum:integer" if vals and isinstance(vals[0], dict) else "enum:string"
    return k


def py_mirror(tree, orm, table):
    """Per-column mirror check on the parsed module: does each emitted field say what the model column says?"""
    bad = []
    classes = [n for n in tree.body if isinstance(n, ast.ClassDef)]
    if not classes:
        return bad
    enum_classes = {c.name for c in classes[:-1]}
    fields = {}
    for st in classes[-1].body:
        if isinstance(st, ast.AnnAssign) and isinstance(st.target, ast.Name) and st.target.id not in fields:
            fields[st.target.id] = st
    pk = [c for k in table["constraints"] if k["type"] == "primary_key" for c in k["columns"]]
    uniq = {k["columns"][0] for k in table["constraints"] if k["type"] == "unique" and len(k["columns"]) == 1}
    idx = {k["columns"][0] for k in table["constraints"] if k["type"] == "index" and len(k["columns"]) == 1}
    fks = collections.defaultdict(set)
    for k in table["constraints"]:
        if k["type"] == "foreign_key" and len(k["columns"]) == 1 and len(k["ref_columns"]) == 1:
            fks[k["columns"][0]].add("%s.%s" % (k["ref_table"], k["ref_columns"][0]))

    def name_of(n):
        if isinstance(n, ast.Name):
            return n.id
        if isinstance(n, ast.Call):
            return name_of(n.func)
        if isinstance(n, ast.Attribute):
            return n.attr
        return None

    for col in table["columns"]:
        st = fields.get(col["name"])
        if st is None or not isinstance(st.value, ast.Call):
            continue                      # already reported as column-count / syntax
        cname = col["name"]
        ann = st.annotation
        if orm == "sqlalchemy":
            if not (isinstance(ann, ast.Subscript) and name_of(ann.value) == "Mapped"):
                bad.append({"kind": "mirror-type", "detail": "%s: annotation is not Mapped[...]" % cname}); continue
            ann = ann.slice
        optional = isinstance(ann, ast.Subscript) and name_of(ann.value) == "Optional"
        base = ann.slice if optional else ann
        nullable = bool(col.get("nullable"))
        has_default = col.get("default") is not None
        kw = {k.arg: k.value for k in st.value.keywords if k.arg}
        # (a) nullability
        if optional != nullable:
            bad.append({"kind": "mirror-nullable", "detail": "%s: nullable=%s but annotation %s Optional" % (cname, nullable, "is" if optional else "is not")})
        if orm == "sqlalchemy":
            if cname in pk:
                if "nullable" in kw:
                    bad.append({"kind": "mirror-nullable", "detail": "%s: key column with a nullable keyword" % cname})
            elif not (isinstance(kw.get("nullable"), ast.Constant) and kw["nullable"].value is nullable):
                bad.append({"kind": "mirror-nullable", "detail": "%s: nullable=%s but keyword nullable is %s" % (cname, nullable, ast.dump(kw["nullable"]) if "nullable" in kw else "absent")})
        # (b) type
        want_py, want_sa = PY_TYPE_TABLE.get(_type_key(col["type"]), (None, None))
        got = name_of(base)
        if want_py is not None:
            if want_py.startswith("<") if isinstance(want_py, str) else False:
                if got not in enum_classes:
                    bad.append({"kind": "mirror-type", "detail": "%s: enum column annotated %s, not an enum class of the module" % (cname, got)})
            elif got not in (want_py if isinstance(want_py, tuple) else (want_py,)):
                bad.append({"kind": "mirror-type", "detail": "%s: %s column annotated %s" % (cname, _type_key(col["type"]), got)})
        if orm == "sqlalchemy" and want_sa is not None and st.value.args:
            sa = name_of(st.value.args[0])
            if sa != want_sa:
                bad.append({"kind": "mirror-type", "detail": "%s: %s column mapped as %s" % (cname, _type_key(col["type"]), sa)})
        # (c) keys, foreign keys, unique, index
        is_pk_kw = isinstance(kw.get("primary_key"), ast.Constant) and kw["primary_key"].value is True
        if is_pk_kw != (cname in pk):
            bad.append({"kind": "mirror-pk", "detail": "%s: key column=%s, primary_key=True %s" % (cname, cname in pk, "present" if is_pk_kw else "absent")})
        if orm == "sqlalchemy":
            got_fk = [a.args[0].value for a in st.value.args[1:] if isinstance(a, ast.Call) and name_of(a) == "ForeignKey" and a.args and isinstance(a.args[0], ast.Constant)]
        else:
            got_fk = [kw["foreign_key"].value] if isinstance(kw.get("foreign_key"), ast.Constant) else []
        if (not fks[cname] and got_fk) or (fks[cname] and (len(got_fk) != 1 or got_fk[0] not in fks[cname])):
            bad.append({"kind": "mirror-fk", "detail": "%s: model FK %s, emitted %s" % (cname, sorted(fks[cname]), got_fk)})
        is_u = isinstance(kw.get("unique"), ast.Constant) and kw["unique"].value is True
        if is_u != (cname in uniq and cname not in pk):
            bad.append({"kind": "mirror-unique", "detail": "%s: unique=True %s" % (cname, "present" if is_u else "absent")})
        if orm == "sqlmodel":
            is_i = isinstance(kw.get("index"), ast.Constant) and kw["index"].value is True
            if is_i != (cname in idx and cname not in pk):
                bad.append({"kind": "mirror-index", "detail": "%s: index=True %s" % (cname, "present" if is_i else "absent")})
        # (d) default
        if orm == "sqlalchemy":
            if ("server_default" in kw) != has_default:
                bad.append({"kind": "mirror-default", "detail": "%s: model default %s, server_default %s" % (cname, has_default, "present" if "server_default" in kw else "absent")})
        else:
            d_none = isinstance(kw.get("default"), ast.Constant) and kw["default"].value is None
            d_val = ("default" in kw and not d_none) or ("sa_column_kwargs" in kw and "server_default" in ast.dump(kw["sa_column_kwargs"]))
            if d_val != has_default:
                bad.append({"kind": "mirror-default", "detail": "%s: model default %s, emitted default %s" % (cname, has_default, "present" if d_val else "absent")})
            if d_none != (not has_default and nullable):
                bad.append({"kind": "mirror-default", "detail": "%s: default=None %s (nullable=%s, model default %s)" % (cname, "present" if d_none else "absent", nullable, has_default)})
    return bad


def py_oracle(run):
    def go():
        cases = {c["idx"]: c for c in jl(os.path.join(run["dir"], "cases.jsonl"))}
        fails, n = [], 0
        for t in jl(os.path.join(run["dir"], "texts.jsonl")):
            if t["orm"] == "seaorm":
                continue
            n += 1
            cols = [c["name"] for c in cases[t["case"]]["models"][t["table"]]["columns"]]
            bad = py_check(t["text"], cols)
            if not any(b["kind"] == "syntax" for b in bad):
                try:
                    bad += py_mirror(ast.parse(t["text"]), t["orm"], cases[t["case"]]["models"][t["table"]])
                except Exception as e:      # the mirror check must not hide a well-formedness result
                    bad.append({"kind": "mirror-error", "detail": repr(e)[:200]})
            if bad:
                fails.append({"case": t["case"], "table": t["table"], "orm": t["orm"], "failures": bad[:8]})
        return {"checked": n, "fails": fails}
    return cached(run["dir"], "r_py.json", go)


# ------------------------------------------------------------------------------------------ O-C18: fresh processes
def fresh_renders(run):
    def go():
        d, binp, k = run["dir"], run["bin"], run["sizes"]["procs"]

        def one(i):
            out = os.path.join(d, "renders_%d.txt" % i)
            rc, o, _ = vflib.sh([binp, "render", "--cases", os.path.join(d, "cases.jsonl"), "--out", out], timeout=900)
            return out if rc == 0 else None
        with ThreadPoolExecutor(max_workers=k) as ex:
            files = list(ex.map(one, range(k)))
        if any(f is None for f in files):
            return {"error": "hexp render failed"}
        tables = []
        for f in files:
            tables.append({tuple(l.split()[:3]): l.split()[3] for l in open(f) if l.strip()})
        differing = []
        for key in tables[0]:
            hs = [t.get(key) for t in tables]
            if len(set(hs)) > 1:
                differing.append({"case": int(key[0]), "table": int(key[1]), "orm": key[2], "distinct_outputs": len(set(hs))})
        return {"processes": k, "renders_per_process": len(tables[0]), "differing": differing}
    return cached(run["dir"], "r_procs.json", go)


# ------------------------------------------------------------------------------------------ O-C16: stages in subprocesses
def c16_oracle(run, cap=300, stage_cap_ms=5000):
    def go():
        d, binp = run["dir"], run["bin"]
        cases_p = os.path.join(d, "c16cases.jsonl")
        total = run["meta"]["n_c16"]
        start, skip = 0, []
        fails, stages, batches, done = [], collections.Counter(), 0, 0
        while start < total and batches < 400:
            batches += 1
            cmd = [binp, "c16", "--cases", cases_p, "--start", str(start), "--stage-cap-ms", str(stage_cap_ms)] + (["--skip", ",".join(skip)] if skip else [])
            t0 = time.time()
            try:
                p = subprocess.run(cmd, capture_output=True, text=True, errors="replace", timeout=cap, env=vflib.ENV)
                out, rc, timed = p.stdout, p.returncode, False
            except subprocess.TimeoutExpired as e:
                out = e.stdout.decode(errors="replace") if isinstance(e.stdout, bytes) else (e.stdout or "")
                rc, timed = None, True
            begin, last_msg, finished = None, None, False
            for line in out.splitlines():
                if line.startswith("TIMEOUT "):
                    timed = True
                elif line.startswith("PANICMSG "):
                    last_msg = line[9:]
                elif line.startswith("BEGIN "):
                    _, i, st = line.split(" ", 2)
                    begin = (int(i), st)
                elif line.startswith("END "):
                    parts = line.split(" ", 5)
                    i, st, status = int(parts[1]), parts[2], parts[3]
                    stages[st.split(":")[0] + ":" + status] += 1
                    if status != "ok":
                        fails.append({"case": i, "stage": st, "status": status, "ms": parts[4] if len(parts) > 4 else "",
                                      "detail": (parts[5] if len(parts) > 5 else "")[:3000], "panic_at": last_msg})
                    begin, last_msg = None, None
                elif line.startswith("CASEDONE "):
                    done = max(done, int(line.split()[1]) + 1)
                elif line.startswith("ALLDONE"):
                    finished = True
            if finished:
                break
            if begin is None:
                # died between stages: report and move on
                fails.append({"case": start, "stage": "(harness)", "status": "crash", "detail": "exit %s" % rc})
                start, skip = start + 1, []
                continue
            i, st = begin
            fails.append({"case": i, "stage": st, "status": "timeout" if timed else "crash",
                          "detail": "wall-clock cap per stage %d ms" % stage_cap_ms if timed else "process exit %s (signal: stack overflow / abort)" % rc,
                          "ms": int((time.time() - t0) * 1000)})
            stages[st.split(":")[0] + ":" + ("timeout" if timed else "crash")] += 1
            skip = (skip if i == start else []) + [st]
            start = i
        return {"cases": total, "batches": batches, "stage_status": dict(stages), "fails": fails}
    return cached(run["dir"], "r_c16.json", go)


def c16_terms(run, idxs):
    """Gallina triples (normalised slice, models, history) of O-C16 cases"""
    if not idxs:
        return {}
    rc, out, _ = vflib.sh([run["bin"], "gallina", "--c16", os.path.join(run["dir"], "c16cases.jsonl"), "--idx", ",".join(str(i) for i in idxs)])
    return {int(m.group(1)): m.group(2) for m in re.finditer(r"CASE (\d+) (.*?)\nENDCASE", out, flags=re.S)}


# ------------------------------------------------------------------------------------------ evidence helpers
def table_samples(run, n=2):
    cases = jl(os.path.join(run["dir"], "cases.jsonl"))
    obs = jl(os.path.join(run["dir"], "obs.jsonl"))
    out = []
    for c, o in zip(cases, obs):
        if len(c["models"]) >= 3 and any(t["n_fk"] >= 2 for t in o["tables"]):
            out.append({"tag": c["tag"], "models": c["models"]})
        if len(out) >= n:
            break
    return out or [{"tag": cases[0]["tag"], "models": cases[0]["models"]}]


def nontrivial_sets(run):
    """distinct model sets with >= 2 tables and >= 1 foreign key (hash of the models)"""
    seen = set()
    for c, o in zip(jl(os.path.join(run["dir"], "cases.jsonl")), jl(os.path.join(run["dir"], "obs.jsonl"))):
        if len(c["models"]) >= 2 and any(t["n_fk"] >= 1 for t in o["tables"]):
            seen.add(hashlib.sha1(json.dumps(c["models"], sort_keys=True).encode()).hexdigest())
    return len(seen)


def distribution(run):
    obs = jl(os.path.join(run["dir"], "obs.jsonl"))
    tags = collections.Counter(o["tag"].split(":")[0] for o in obs)
    nfk = collections.Counter(str(min(t["n_fk"], 4)) for o in obs for t in o["tables"])
    sea = collections.Counter(t["sea"]["status"] for o in obs for t in o["tables"])
    return {"streams": dict(tags), "fks_per_table": dict(nfk), "seaorm_render_status": dict(sea),
            "tables": sum(len(o["tables"]) for o in obs)}


def input_of(run, case, table=None):
    c = jl(os.path.join(run["dir"], "cases.jsonl"))[case]
    r = {"models": c["models"], "tag": c["tag"], "config": c.get("config"),
         "how_to_replay": "write each table to models/<name>.json and run `vespertide export --orm <orm>`, or ./vf replay Cnn <this file>"}
    if table is not None:
        r["table"] = c["models"][table]["name"]
    return r


def write_corpus_replay(path_dir, models):
    os.makedirs(path_dir, exist_ok=True)
    json.dump({"models": models}, open(os.path.join(path_dir, "replay.json"), "w"))


def replay_run(prop, models=None, action=None, config=None):
    """A run directory that holds only the replay input (as a one-file corpus)."""
    rc, out, binp = vflib.build_harness(PKG, ws=WS)
    if rc != 0:
        print(out[-2000:])
        return None
    d = os.path.join(CACHE, "replay_%s" % prop)
    shutil.rmtree(d, ignore_errors=True)
    os.makedirs(os.path.join(d, "corpus"))
    if models is not None:
        json.dump({"models": models, "config": config} if config else {"models": models}, open(os.path.join(d, "corpus", "replay.json"), "w"))
    if action is not None:
        json.dump({"action": action}, open(os.path.join(d, "corpus", "replay_action.json"), "w"))
    rc, out, _ = vflib.sh([binp, "gen", "--seed", "1", "--n", "0", "--disp", "0", "--evolutions", "0", "--out", d, "--corpus", os.path.join(d, "corpus")])
    if rc != 0:
        print(out[-2000:])
        return None
    m = json.load(open(os.path.join(d, "meta.json")))
    return {"dir": d, "bin": binp, "meta": m, "sizes": sizes("quick")}
