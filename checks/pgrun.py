"""Shared runner of the PostgreSQL layer (coq/pg, harness_pg/hpg, tools/pg_sqlparse.py).

One run = build hpg against /repo's working tree, generate histories (corpus first), parse every PostgreSQL
statement THE IMPLEMENTATION emitted, write Coq shards, and let Coq
  * execute the parsed statements on the PostgreSQL catalog model, migration after migration, and compare the
    resulting catalog with catalog_of (replayed baseline)                       -> oracle O-C03,
  * attribute every failing case to the Gallina classes of the known findings   -> Corr/Known.v,
  * compare the generator model gen_plan with the parsed statements             -> correspondence K-sql(pg).
Results are cached per (content hash of the inputs, tier, seed)."""
import collections, glob, hashlib, json, os, re, shutil, sys, time
import vflib
from vflib import ROOT, CACHE

sys.path.insert(0, os.path.join(ROOT, "tools"))
import pg_sqlparse as P  # noqa: E402

LAYER = "pg"
PROPOSED = os.path.join(ROOT, "props", "known_C03.proposed.json")

ENGINE_RULES = [
    "engine MODELLED, NOT VERIFIED (no PostgreSQL server in the sandbox); rules encoded in coq/pg/Model/Engine.v:",
    "R1 one name space for tables and indexes: CREATE TABLE / CREATE INDEX / RENAME TO refuse an existing relation name",
    "R2 one name space for types; each table owns a row type of its own name: CREATE TYPE n, CREATE TABLE n, RENAME TO n refuse when an enum type or a table n exists",
    "R3 a column type must exist (built-in, enum or row type); unquoted identifiers fold to lower case, quoted ones are verbatim",
    "R4 CREATE TYPE ... AS ENUM takes string literals; labels are distinct",
    "R5 at most one PRIMARY KEY per table; its columns become NOT NULL; it owns index and constraint {table}_pkey (a number is appended when that relation name is taken)",
    "R6 FOREIGN KEY: referenced table/columns exist, arities agree, the referenced columns are exactly the column set of a unique index or primary key; constraint names are unique per table",
    "R7 DROP TABLE refuses while a foreign key of another table references it; indexes, constraints, row type go; enum types used by its columns stay",
    "R8 DROP COLUMN refuses while a foreign key of another table references the column; every index and table constraint involving the column goes with it (multi-column and primary key included)",
    "R9 DROP INDEX: exists, does not back a constraint, no foreign key needs it",
    "R10 DROP CONSTRAINT: exists on that table; a key constraint takes its index and refuses when a foreign key needs that index; NOT NULL stays",
    "R11 DROP TYPE: exists and no column uses it",
    "R12 ALTER TYPE a RENAME TO b: a exists, b free; columns follow",
    "R13 ALTER TABLE a RENAME TO b: row type renamed with the table; indexes, constraints, enum types keep their names; foreign keys of other tables follow",
    "R14 ALTER COLUMN TYPE needs an existing type (cast feasibility not judged); NOT NULL / DEFAULT / owned sequence stay; SET/DROP NOT NULL, SET/DROP DEFAULT, COMMENT, UPDATE, RENAME COLUMN need table and column; DROP NOT NULL refuses on a key column; RENAME COLUMN refuses an existing name; indexes, constraints and other tables' foreign keys follow a renamed column",
    "R15 ADD COLUMN refuses an existing column name",
    "R16 serial/smallserial/bigserial = integer type + owned sequence (autoincrement flag); sequence names are not tracked",
    "not modelled (engine accepts): cast feasibility, data-dependent failures, operator classes, CHECK expression validity, identifier truncation at 63 bytes; raw SQL actions are opaque (A4)",
]


def sizes(tier):
    if tier == "thorough":
        return {"histories": 1500, "steps": 5, "per_shard": 40}
    return {"histories": 420, "steps": 4, "per_shard": 40}


def tree_hash(paths):
    h = hashlib.sha1()
    for base in paths:
        if os.path.isfile(base):
            h.update(open(base, "rb").read())
            continue
        for f in sorted(glob.glob(os.path.join(base, "**", "*"), recursive=True)):
            if os.path.isfile(f) and "/target/" not in f and "/.git/" not in f and not f.endswith((".vo", ".vok", ".vos", ".glob", ".aux")):
                h.update(f.encode())
                h.update(open(f, "rb").read())
    return h.hexdigest()[:16]


# ------------------------------------------------------------------------------- Coq term reader
def coqterm(txt):
    """read a printed Coq term made of tuples, lists, nats, strings, booleans"""
    pos = [0]

    def ws():
        while pos[0] < len(txt) and txt[pos[0]] in " \n\t":
            pos[0] += 1

    def val():
        ws()
        ch = txt[pos[0]]
        if ch == "[":
            pos[0] += 1
            out = []
            ws()
            if txt[pos[0]] == "]":
                pos[0] += 1
                return out
            while True:
                out.append(val())
                ws()
                if txt[pos[0]] == ";":
                    pos[0] += 1
                    continue
                if txt[pos[0]] == "]":
                    pos[0] += 1
                    return out
                raise ValueError("list at %d: %r" % (pos[0], txt[pos[0]:pos[0] + 40]))
        if ch == "(":
            pos[0] += 1
            out = []
            while True:
                out.append(val())
                ws()
                if txt[pos[0]] == ",":
                    pos[0] += 1
                    continue
                if txt[pos[0]] == ")":
                    pos[0] += 1
                    return tuple(out)
                raise ValueError("tuple at %d" % pos[0])
        if ch == '"':
            j = pos[0] + 1
            buf = []
            while True:
                if txt[j] == '"':
                    if txt[j + 1:j + 2] == '"':
                        buf.append('"')
                        j += 2
                        continue
                    pos[0] = j + 1
                    return "".join(buf)
                buf.append(txt[j])
                j += 1
        m = re.match(r"[A-Za-z0-9_%]+", txt[pos[0]:])
        tok = m.group(0)
        pos[0] += len(tok)
        tok = tok.replace("%nat", "")
        if tok == "true":
            return True
        if tok == "false":
            return False
        return int(tok) if tok.isdigit() else tok
    return val()


# ------------------------------------------------------------------------------- shards
def case_term(r):
    """Gallina term of one migration; raises P.Unparsed"""
    if isinstance(r["sql"], dict):
        impl = "None"
    else:
        per = []
        for a, ss in zip(r["plan"]["actions"], r["sql"]):
            f = P.raw_to_gallina if a.get("type") == "raw_sql" else P.parse_to_gallina
            per.append("[" + "; ".join(f(s) for s in ss) + "]")
        impl = "(Some [" + ";\n   ".join(per) + "])"
    return "(mkPgCase %s\n  %s\n  %s\n  %s)" % (r["baseline_g"], r["actions_g"], r["after_g"], impl)


SHARD_HEAD = "From VV.PG Require Import Known CorrGen Hyp Pending.\n"
SHARD_TAIL = ("Eval vm_compute in report_from shard_base cases.\n"
              "Eval vm_compute in ksql_mismatches shard_base cases.\n"
              "Eval vm_compute in (hyp_stats cases ++ sim_stats cases ++ plan_stats cases).\n")


def write_shards(d, rows, per):
    """returns (idx_map: shard-relative position -> row index, unparsed {row index: message})"""
    terms, idx_map, unparsed = [], [], {}
    for i, r in enumerate(rows):
        if r.get("panic"):
            continue
        try:
            terms.append(case_term(r))
            idx_map.append(i)
        except P.Unparsed as e:
            unparsed[i] = str(e)
    for f in glob.glob(os.path.join(d, "cases_pg_*.v*")) + glob.glob(os.path.join(d, ".cases_pg_*")):
        os.remove(f)
    for si in range(0, len(terms), per):
        body = (SHARD_HEAD + "Definition shard_base : nat := %d.\nDefinition cases : list pg_case := [\n" % si
                + ";\n".join(terms[si:si + per]) + "\n].\n" + SHARD_TAIL)
        open(os.path.join(d, "cases_pg_%03d.v" % (si // per)), "w").write(body)
    return idx_map, unparsed


@vflib.serialized("run_pg")
def run_pg(tier, seed, corpus=None, histories=None):
    """dict(rows, failing {row idx: {...}}, ksql {row idx: [action idx]}, errors, meta, dir) or {build_error|coq_error}"""
    sz = sizes(tier)
    if histories is not None:
        sz["histories"] = histories
    corpus = corpus or os.path.join(ROOT, "corpus", "pg")
    rc, out, binp = vflib.build_harness("hpg", ws="harness_pg")
    if rc != 0:
        return {"build_error": out[-3000:]}
    rc2, out2 = vflib.build_layer(LAYER, targets="models")
    if rc2 != 0:
        return {"coq_error": out2[-3000:]}
    key = tree_hash(["/repo/crates/vespertide-core", "/repo/crates/vespertide-planner", "/repo/crates/vespertide-naming",
                     "/repo/crates/vespertide-query", os.path.join(ROOT, "harness", "common"),
                     os.path.join(ROOT, "harness_pg", "hpg"), os.path.join(ROOT, "coq", "m1", "Base"),
                     os.path.join(ROOT, "coq", "m1", "Model"), os.path.join(ROOT, "coq", "pg", "Model"),
                     os.path.join(ROOT, "coq", "pg", "Corr"), corpus, os.path.join(ROOT, "tools", "pg_sqlparse.py"),
                     os.path.abspath(__file__)])
    d = os.path.join(CACHE, "pgrun", "%s_%s_%s_%s" % (key, tier, seed, sz["histories"]))
    done = os.path.join(d, "result.json")
    if os.path.exists(done):
        res = json.load(open(done))
        res["rows"] = [json.loads(l) for l in open(os.path.join(d, "cases.jsonl"))]
        res["cached"] = True
        return res
    shutil.rmtree(d, ignore_errors=True)
    # keep the cache small, but never touch a directory another run may still be using (concurrent checks share it)
    olds = [x for x in glob.glob(os.path.join(CACHE, "pgrun", "*")) if os.path.isdir(x)]
    for old in sorted(olds, key=os.path.getmtime)[:-8]:
        if time.time() - os.path.getmtime(old) > 3 * 3600:
            shutil.rmtree(old, ignore_errors=True)
    os.makedirs(d)
    t0 = time.time()
    rc, out, _ = vflib.sh([binp, "gen", "--seed", str(seed), "--histories", str(sz["histories"]), "--steps", str(sz["steps"]),
                           "--out", d, "--corpus", corpus], timeout=1200)
    if rc != 0:
        return {"build_error": "hpg gen failed: " + out[-2000:]}
    meta = json.load(open(os.path.join(d, "meta.json")))
    rows = [json.loads(l) for l in open(os.path.join(d, "cases.jsonl"))]
    idx_map, unparsed = write_shards(d, rows, sz["per_shard"])
    gen_s = time.time() - t0
    t1 = time.time()
    res = vflib.run_shards(LAYER, d, "cases_pg_*.v")
    failing, ksql, errors, hyp = {}, {}, [], collections.Counter()
    for f, rc, o, dt in res:
        if rc != 0:
            errors.append({"shard": os.path.basename(f), "log": o[-1500:]})
            continue
        blocks = vflib.parse_eval_outputs(o)
        try:
            for (i, row, bits, ok) in coqterm(blocks[0]):
                kind, code, ai, si, msg = row
                failing[str(idx_map[i])] = {"kind": kind, "code": code, "ai": ai, "si": si, "msg": msg, "bits": bits, "explained": ok}
            for (i, acts) in coqterm(blocks[1]):
                ksql[str(idx_map[i])] = acts
            for (name, n) in coqterm(blocks[2]):
                hyp[name] += n
        except Exception as e:  # unreadable output = broken correspondence, never ignored
            errors.append({"shard": os.path.basename(f), "log": "unreadable Coq output: %s\n%s" % (e, o[-800:])})
    out = {"failing": failing, "ksql": ksql, "errors": errors, "meta": meta, "dir": d, "unparsed": {str(k): v for k, v in unparsed.items()},
           "gen_s": round(gen_s, 1), "coq_s": round(time.time() - t1, 1), "cached": False, "hyp": dict(hyp),
           "class_names": class_names()}
    json.dump(out, open(done, "w"))
    out["rows"] = rows
    return out


_CLASS_NAMES = None


def class_names():
    global _CLASS_NAMES
    if _CLASS_NAMES is None:
        d = os.path.join(CACHE, "pgrun")
        os.makedirs(d, exist_ok=True)
        f = os.path.join(d, "class_names.v")
        open(f, "w").write("From VV.PG Require Import Known.\nEval vm_compute in class_names.\n")
        rc, out, _ = vflib.sh(["timeout", "300", "coqc", "-noglob"] + vflib.q_flags(LAYER) + [f], cwd=d)
        _CLASS_NAMES = coqterm(vflib.parse_eval_outputs(out)[0]) if rc == 0 else []
    return _CLASS_NAMES


def load_known(prop="C03"):
    """open / fixed entries for the property: committed file first, then the proposed file"""
    known = [k for k in vflib.load_known() if k["property"] == prop]
    ids = {k["id"] for k in known}
    if os.path.exists(PROPOSED):
        for k in json.load(open(PROPOSED)):
            if k.get("property") == prop and k["id"] not in ids:
                known.append(k)
    return known


def input_of(r):
    return {"history": r.get("history"), "plan": r.get("plan"), "baseline": r.get("baseline"),
            "postgres_sql": r.get("sql"), "tag": r.get("tag"),
            "how_to_replay": "write each plan of `history` then `plan` to migrations/ of a vespertide project and run `vespertide sql --backend postgres`, or ./vf replay C03 <this file>"}


def distribution(rows, res):
    kinds, nact, tags = collections.Counter(), collections.Counter(), collections.Counter()
    for r in rows:
        for a in r.get("action_kinds", []):
            kinds[a] += 1
        nact[str(min(r.get("n_actions", 0), 10))] += 1
        tags[r.get("tag", "?").split(":")[0] + ":" + r.get("tag", "?").split(":")[-1] if not r.get("tag", "").startswith("corpus") else "corpus"] += 1
    oc = collections.Counter()
    for f in res["failing"].values():
        oc[{1: "engine-error", 2: "catalog-difference", 3: "no-replayed-baseline", 4: "generator-error"}.get(f["kind"], "?")] += 1
    return {"action_kinds": dict(kinds), "plan_sizes": dict(nact), "streams": dict(tags),
            "enum_cases": sum(1 for r in rows if r.get("enum")), "oracle_outcomes": dict(oc),
            "other_backend_panic_in_build_plan_queries": sum(1 for r in rows if r.get("other_backend_panic")),
            "rejected_edits": res["meta"].get("rejected_edits"), "hand_steps_rejected": res["meta"].get("hand_rejected")}


def nontrivial(rows):
    """distinct migrations with >= 2 actions of >= 2 kinds, or touching a schema of >= 2 tables (Appendix D)"""
    seen = set()
    for r in rows:
        if r.get("n_actions", 0) >= 2 and (len(r.get("action_kinds", [])) >= 2 or r.get("n_tables", 0) >= 2):
            seen.add(hashlib.sha1(json.dumps([r.get("baseline"), r.get("plan")], sort_keys=True).encode()).hexdigest())
    return len(seen)


def statement_text(r, ai, si):
    try:
        return r["sql"][ai][si]
    except Exception:
        return None


def c03_check(tier, seed):
    prop = "C03"
    chk = vflib.Check(prop, tier, seed)
    chk.assumptions = [
        "tie: K-sql(pg) — gen_plan (coq/pg/Model/Gen.v) compared inside Coq with the parsed PostgreSQL statements of build_plan_queries(..).postgres on every case; K-apply is the M1 correspondence",
        "oracle O-C03 runs on the statements the IMPLEMENTATION emitted (parsed by tools/pg_sqlparse.py; an unparsed statement is a failure), never on the model's",
        "sanity assumptions A1-A7 of DESIGN.md section 4.2 (generators reject model sets / hand steps that break A2, A3, A4, A5, A7 or remove a referenced key by hand)",
        "each migration starts from catalog_of(replayed baseline before it); a first migration starts from the empty catalog",
    ] + ENGINE_RULES
    chk.cov["trusted_base"] = vflib.TRUSTED_COMMON + [
        "tools/pg_sqlparse.py (SQL text -> stmt terms; fails loudly on any shape it does not know)",
        "the PostgreSQL catalog model coq/pg/Model/Engine.v is written from the reference manual: modelled, not verified",
        "str::to_lowercase / trim modelled for ASCII only (engine-profile generators emit ASCII)"]
    # the simulation proofs use the sorted-map library of the M1 layer (Proofs/BtP.v); dependency layers are
    # otherwise built models-only
    vflib.build_layer("m1", targets=["Proofs/BtP.vo"])
    vflib.proof_stage(chk, LAYER, prop)
    res = run_pg(tier, seed)
    if "build_error" in res or "coq_error" in res:
        rp = vflib.write_replay(prop, "correspondence:build", {"log": res.get("build_error") or res.get("coq_error")})
        chk.violation(rp, True)
        return chk.finish()
    rows, failing, ksql = res["rows"], res["failing"], res["ksql"]
    chk.cov["evaluations"] = len(rows)
    chk.cov["distinct_nontrivial"] = nontrivial(rows)
    chk.cov["rule"] = ("one evaluation = one migration of a history (corpus witnesses first; then histories grown by the real planner + revision fill "
                       "from engine-profile model sets, enum-biased model sets, and hand-extended steps RenameTable / RenameColumn / explicit Add/RemoveConstraint / RawSql / DeleteColumn); "
                       "non-trivial = plan with >=2 actions of >=2 kinds, or a baseline of >=2 tables; distinct by hash of (baseline, plan)")
    chk.cov["distribution"] = distribution(rows, res)
    chk.cov["samples"] = [input_of(r) for r in rows if r.get("n_actions", 0) >= 2 and not r.get("panic")][:2]
    chk.cov["traces_validated_against_impl"] = len(rows)
    chk.cov["cached_run"] = res.get("cached", False)
    chk.cov["timings_s"] = {"generate+parse": res.get("gen_s"), "coq": res.get("coq_s")}
    n_cmp = len(rows) - len(res["unparsed"]) - sum(1 for r in rows if r.get("panic"))
    chk.cov["correspondences"] = {"K-sql(pg)": {"cases": n_cmp, "mismatches": len(ksql), "unparsed_statements": len(res["unparsed"])}}
    names = res.get("class_names") or class_names()
    known = load_known(prop)
    open_known = [k for k in known if k.get("status") == "open"]
    # ---- oracle failures: attributed (inside Coq) to the classes of open findings, or violations
    covered = collections.Counter()
    unexplained = []
    open_classifiers = {k["classifier"]: k for k in open_known}
    for i, f in sorted(failing.items(), key=lambda kv: int(kv[0])):
        hit = [names[j] for j, b in enumerate(f["bits"]) if b and j < len(names)]
        hit_open = [h for h in hit if h in open_classifiers]
        # every firing class that explains part of the failure must be an open finding
        if f["explained"] and hit and len(hit_open) == len(hit):
            for h in hit_open:
                covered[open_classifiers[h]["id"]] += 1
        else:
            unexplained.append(int(i))
    for k in open_known:
        wit = os.path.basename(k.get("witness", ""))
        wit_rows = [i for i, r in enumerate(rows) if r.get("tag", "") == "corpus:" + wit]
        wit_fails = [i for i in wit_rows if str(i) in failing and k["classifier"] in
                     [names[j] for j, b in enumerate(failing[str(i)]["bits"]) if b and j < len(names)]]
        if wit_fails or covered.get(k["id"]):
            chk.known_finding(k["id"], k["what"])
        else:
            chk.notes.append("NOTE stale known finding %s: its witness no longer fails" % k["id"])
    hyp = dict(res.get("hyp", {}))
    # plans under the hypotheses of the plan-level theorems: before = Sim_plan (every step under a per-step lemma on the
    # planner's schema), after = Sim_plan_pending (pending-set invariant) or Sim_plan
    plans = {"plans": hyp.pop("plans", 0),
             "before_under_Sim_plan": hyp.pop("plans_under_Sim_plan", 0),
             "under_Sim_plan_pending": hyp.pop("plans_under_Sim_plan_pending", 0),
             "after_under_Sim_plan_or_Sim_plan_pending": hyp.pop("plans_under_either", 0),
             "plans_the_oracle_accepts": hyp.pop("plans_with_oracle_ok", 0),
             "under_a_theorem_but_oracle_fails": hyp.pop("plans_under_either_with_oracle_failure", 0)}
    chk.cov["theorem_coverage"] = {"oracle_failures": len(failing), "classified_known": dict(covered), "unexplained": len(unexplained),
                                   "steps_under_sim_theorem_hypotheses": hyp,
                                   "plans_under_plan_level_theorem": plans}
    if plans["under_a_theorem_but_oracle_fails"]:
        # a plan under the decidable hypothesis of a proved plan-level theorem on which the oracle (the implementation's own
        # statements on the same catalog model) fails contradicts the theorem unless model and implementation disagree
        rp = vflib.write_replay(prop, "theorem-vs-oracle", {"tier": tier, "seed": seed, "count": plans["under_a_theorem_but_oracle_fails"],
                                                            "what": "plan_ok holds (Sim_plan / Sim_plan_pending apply) but the oracle does not end in OOk"})
        chk.violation(rp)
    for i in unexplained[:6]:
        r, f = rows[i], failing[str(i)]
        rp = vflib.write_replay(prop, "oracle", {"tier": tier, "seed": seed, "input": input_of(r),
                                                 "oracle": {"outcome": {1: "engine-error", 2: "catalog-difference", 3: "no-replayed-baseline", 4: "generator-error"}.get(f["kind"]),
                                                            "violated_rule_or_difference": f["msg"], "action_index": f["ai"], "statement_index": f["si"],
                                                            "statement": statement_text(r, f["ai"], f["si"]) if f["kind"] == 1 else None,
                                                            "classes_firing": [names[j] for j, b in enumerate(f["bits"]) if b and j < len(names)]},
                                                 "replay_cmd": "./vf replay C03 <this file>"})
        chk.violation(rp)
    for r in [r for r in rows if r.get("panic")][:3]:
        rp = vflib.write_replay(prop, "oracle:panic", {"input": input_of(r)})
        chk.violation(rp)
    # ---- broken correspondence / unparsed statements / shard errors and nothing new found by the oracle
    if (ksql or res["unparsed"] or res["errors"]) and not unexplained:
        payload = {"tier": tier, "seed": seed, "shard_errors": res["errors"][:2]}
        if res["unparsed"]:
            i = sorted(int(x) for x in res["unparsed"])[0]
            payload.update({"broken": "K-sql(pg): statement not in the parsed dialect", "first_differing_case": input_of(rows[i]), "parser": res["unparsed"][str(i)]})
        elif ksql:
            i = sorted(int(x) for x in ksql)[0]
            payload.update({"broken": "K-sql(pg)", "first_differing_case": input_of(rows[i]), "differing_actions": ksql[str(i)],
                            "model_output": model_sql_for(res["dir"], rows[i])})
        rp = vflib.write_replay(prop, "correspondence:K-sql-pg", payload)
        chk.violation(rp, True)
    return chk.finish()


def model_sql_for(d, r):
    """print the model's statements for one case (second file, only on a mismatch)"""
    try:
        f = os.path.join(d, "model_out.v")
        open(f, "w").write("From VV.PG Require Import Known CorrGen.\nEval vm_compute in gen_plan %s %s.\n" % (r["baseline_g"], r["actions_g"]))
        rc, out, _ = vflib.sh(["timeout", "300", "coqc", "-noglob"] + vflib.q_flags(LAYER) + [f], cwd=d)
        return out[-4000:]
    except Exception as e:
        return str(e)


def c03_replay(path):
    """re-run O-C03 on the input stored in a replay file"""
    rp = json.load(open(path))
    inp = rp.get("input") or rp.get("first_differing_case")
    if not inp:
        print("replay file has no input (%s)" % rp.get("kind"))
        print(json.dumps(rp, indent=1)[:3000])
        return 1
    d = os.path.join(CACHE, "replay_C03")
    shutil.rmtree(d, ignore_errors=True)
    os.makedirs(os.path.join(d, "corpus"))
    json.dump({"history": (inp.get("history") or []) + [inp["plan"]]}, open(os.path.join(d, "corpus", "replay.json"), "w"))
    res = run_pg("quick", 1, corpus=os.path.join(d, "corpus"), histories=0)
    if "rows" not in res:
        print(res)
        return 1
    last = len(res["rows"]) - 1
    f = res["failing"].get(str(last))
    print(json.dumps(f))
    known = {k["classifier"] for k in load_known("C03") if k.get("status") == "open"}
    names = res.get("class_names") or class_names()
    if f is not None:
        hit = [names[j] for j, b in enumerate(f["bits"]) if b]
        if f["explained"] and hit and all(h in known for h in hit):
            print("KNOWN-FINDING: property=C03 classes=%s" % ",".join(hit))
            return 0
        print("VIOLATION property=C03 replay=%s" % path)
        return 1
    if res["ksql"].get(str(last)) or res["unparsed"].get(str(last)):
        print("VIOLATION property=C03 replay=%s no-failing-input-found" % path)
        return 1
    return 0


# ------------------------------------------------------------------------------- parts for the aggregate C19 / C14 checks
def _part(prop_file, tier, seed):
    """compile Properties/<prop_file>.v of the pg layer; the behavioural tie is this layer's K-sql(pg) run"""
    bad = vflib.grep_forbidden(LAYER)
    vflib.build_layer("m1", targets=["Proofs/BtP.vo", "Proofs/PrefixP.vo", "Proofs/PrefixApplyP.vo"])
    rc, out = vflib.build_layer(LAYER, targets=vflib.model_targets(LAYER) + ["Properties/%s.vo" % prop_file])
    if rc != 0 or bad:
        return {"ok": False, "obligations": 0, "discharged": 0, "details": {"build": out[-1500:], "forbidden": bad}}
    r = vflib.compile_property(LAYER, prop_file)
    unexpected = [a for a in r["axioms"] if a.split(".")[-1] not in {x.split(".")[-1] for x in vflib.AXIOM_ALLOW}]
    res = run_pg(tier, seed)
    tie_ok = "rows" in res and not res["ksql"] and not res["unparsed"] and not res["errors"]
    return {"ok": bool(r["ok"] and not unexpected and tie_ok), "obligations": r["obligations"], "discharged": r["discharged"],
            "details": {"theorems": r["theorems"], "axioms": r["axioms"], "closed": r["closed"],
                        "K-sql(pg)": {"cases": len(res.get("rows", [])), "mismatches": len(res.get("ksql", {})),
                                      "unparsed": len(res.get("unparsed", {})), "shard_errors": len(res.get("errors", []))},
                        "log_tail": "" if r["ok"] else r["output"][-1500:]}}


def c19_part(tier, seed):
    return _part("C19_pg", tier, seed)


def c14_part(tier, seed):
    return _part("C14_pg", tier, seed)
