"""C16 — no loadable project makes any stage panic, overflow the stack or hang."""
import collections, json, os
import vflib, exprun
from exprun import CLASS_IDX

PROP = "C16"
RULE = ("(a) actions for Display: a multi-byte character of each width (2/3/4 bytes) at every byte offset 40..55 and 20..35 for both "
        "truncating arms, quotes, empty, 64 KiB strings (ASCII and multi-byte), plus random actions of all 13 kinds with adversarial strings in "
        "every text position; (b) O-C16 projects: loader-accepted evolutions (vcommon generator, loader profile) whose free text (descriptions, "
        "comments, defaults, CHECK expressions, enum labels, custom types, constraint names) is replaced by adversarial strings, histories "
        "extended the way `vespertide revision` does and sometimes by hand-written raw SQL migrations, plus FK-shaped model sets and a systematic "
        "single-column FK-chain stream (head -> tail of 0..3 FK columns -> cycle of 0..3 FK columns: acyclic chains, cycles, rho shapes = tail "
        "INTO a cycle; across tables, inside one table, through key columns; two table orders; each table rendered with the whole slice as "
        "context in a child process, so a stack overflow or hang is an outcome of that case) and a relation-enum collision stream (tables named "
        "`_`, `__`, `-`, `_-_`, `--`, `2`, `9x`, `!`, ... carrying FKs whose relation enums collide: owner_id + owner [+ owner-id], two composite FKs "
        "sharing their leading column); every in-process render runs on its own thread under a 2 s wall-clock cap, so an endless loop is the "
        "outcome `diverged` of that table; every project runs plan_next_migration, build_plan_queries + .build for 3 backends for the new and every recorded plan, "
        "Display of every action and the 3 exporters, in subprocess batches with a wall-clock cap per stage; "
        "non-trivial = distinct (by hash) project with >= 2 tables or a non-empty history, or distinct action with a non-ASCII string")
C16_CLS = ["sqlite_numeric", "sqlite_interval", "history_rawsql", "models_fk_cycle", "plan_cycle"]
FINDING_OF = {"sqlite_numeric": "C16-sqlite-numeric-precision", "sqlite_interval": "C16-sqlite-interval",
              "history_rawsql": "C16-display-rawsql-slice", "models_fk_cycle": "C16-seaorm-fk-cycle",
              "plan_cycle": "C16-plan-circular-fk-error"}


def explains(stage, status, panic_at):
    st = stage.split(":")[0]
    if st == "sql" and status == "panic" and "sea-query" in (panic_at or "") and "backend/sqlite/table.rs" in (panic_at or ""):
        return (["sqlite_numeric"] if ":157" in panic_at else []) + (["sqlite_interval"] if ":169" in panic_at else [])
    # a Display panic has no known class any more (C16-display-rawsql-slice was fixed by b4532c3): always unexplained
    if stage.startswith("export:seaorm") and status in ("timeout", "crash"):
        return ["models_fk_cycle"]
    if st == "plan" and status == "error":
        return ["plan_cycle"]
    return []


def verdict(chk, run, tier, seed):
    sites = exprun.sites_check(run)
    disp = exprun.eval_disp(run)
    exp = exprun.eval_exp(run)
    o16 = exprun.c16_oracle(run, stage_cap_ms=5000 if tier == "quick" else 10000)
    obs = exprun.jl(os.path.join(run["dir"], "obs.jsonl"))
    drows = exprun.jl(os.path.join(run["dir"], "disp.jsonl"))
    c16cases = exprun.jl(os.path.join(run["dir"], "c16cases.jsonl"))
    open_ids = {k["id"]: k for k in exprun.load_findings(PROP) if k.get("status") == "open"}
    broken = []
    # ---- obligations from the source inventory
    if "error" in sites:
        broken.append(("theorem:PanicSites", {"error": sites["error"]}))
    elif sites["undischarged_panic"]:
        broken.append(("theorem:site_discharge", {"undischarged_panic_sites": sites["undischarged_panic"],
                                                  "note": "(file, fn, kind, count) in the non-test code of /repo without an entry in coq/exp/Model/SiteTables.v:site_discharge"}))
    # ---- correspondences
    if disp["mismatches"] or disp["errors"]:
        first = sorted(disp["mismatches"].items(), key=lambda kv: int(kv[0]))[:1]
        payload = {"tier": tier, "seed": seed, "shard_errors": disp["errors"][:2], "mismatching_cases": len(disp["mismatches"])}
        if first:
            payload["first_differing_case"] = {"action": drows[int(first[0][0])]["action"]}
            payload["subchecks"] = [{1: "Display outcome / text", 2: "to_display_string"}[c] for c in first[0][1]]
        broken.append(("correspondence:K-disp", payload))
    rel = {i: [c for c in codes if c % 10 in (1, 9)] for i, codes in exp["mismatches"].items()}
    rel = {i: c for i, c in rel.items() if c}
    if rel or exp["errors"]:
        first = sorted(rel.items(), key=lambda kv: int(kv[0]))[:1]
        payload = {"tier": tier, "seed": seed, "shard_errors": exp["errors"][:2], "mismatching_cases": len(rel)}
        if first:
            payload["first_differing_case"] = exprun.input_of(run, int(first[0][0]), first[0][1][0] // 10)
        broken.append(("correspondence:K-exp", payload))
    known_hits, unexplained = collections.Counter(), []
    # ---- oracle 1: Display under catch_unwind on the action stream
    dcls = disp["classes"]
    n_disp_panics = 0
    for r in drows:
        if r["panic"]:
            n_disp_panics += 1
            # Display is proved total: any panic is a violation (no known class)
            unexplained.append({"stage": "display", "status": "panic", "input": {"action": r["action"]}})
    # ---- oracle 2: SeaORM renders that did not come back (subprocess) or panicked
    for o in obs:
        for j, t in enumerate(o["tables"]):
            st = t["sea"]["status"]
            if st in ("ok", "unparsed"):
                continue
            c = exp["classes"].get(str(o["idx"]))
            if st == "diverged" and c and c[j][CLASS_IDX["fk_cycle"]] and "C16-seaorm-fk-cycle" in open_ids:
                known_hits["C16-seaorm-fk-cycle"] += 1
            else:
                unexplained.append({"stage": "export:seaorm", "status": st, "input": exprun.input_of(run, o["idx"], j), "detail": t["sea"]})
    # ---- oracle 3: all stages on generated projects, in subprocesses
    fails = [f for f in o16["fails"] if not (f["status"] == "error" and not c16cases[f["case"]].get("tool_history", True))]
    fails = [f for f in fails if not (f["status"] == "error" and f["stage"].split(":")[0] != "plan" and False)]
    idxs = sorted({f["case"] for f in fails})
    terms = exprun.c16_terms(run, idxs)
    vals = exprun.classify_terms(run, "c16", "CorrExp Stages", "classify_c16", [terms[i] for i in idxs if i in terms])
    if vals is None or len(terms) != len(idxs):
        broken.append(("theorem:classifier-classify_c16", {"note": "classifiers did not evaluate", "cases": idxs[:5]}))
        vals = [[False] * len(C16_CLS)] * len(idxs)
    cl = {i: dict(zip(C16_CLS, v)) for i, v in zip([i for i in idxs if i in terms], vals)}
    for f in fails:
        ex = [c for c in explains(f["stage"], f["status"], f.get("panic_at")) if cl.get(f["case"], {}).get(c) and FINDING_OF[c] in open_ids]
        if ex:
            known_hits[FINDING_OF[ex[0]]] += 1
        else:
            c = c16cases[f["case"]]
            unexplained.append({"stage": f["stage"], "status": f["status"], "detail": f.get("detail"), "panic_at": f.get("panic_at"),
                                "input": {"models": c["models"], "history": c["history"], "tag": c["tag"]}})
    # ---- known findings: witness must still fail
    tags16 = {c["idx"]: c["tag"] for c in c16cases}
    for fid, k in open_ids.items():
        wit = "corpus:" + os.path.basename(k.get("witness", ""))
        wit_fails = any(tags16.get(f["case"]) == wit for f in fails) or any(r["tag"] == wit and r["panic"] for r in drows) \
            or any(o["tag"] == wit and any(t["sea"]["status"] == "diverged" for t in o["tables"]) for o in obs)
        if wit_fails or known_hits.get(fid):
            chk.known_finding(fid, k["what"])
        else:
            chk.notes.append("NOTE stale known finding %s: its witness no longer fails" % fid)
    for u in unexplained[:5]:
        rp = vflib.write_replay(PROP, "oracle", {"tier": tier, "seed": seed, "input": u["input"], "oracle": {k: v for k, v in u.items() if k != "input"},
                                                  "replay_cmd": "./vf replay C16 <this file>"})
        chk.violation(rp)
    if broken and not unexplained:
        for kind, payload in broken:
            chk.violation(vflib.write_replay(PROP, kind, payload), True)
    # ---- evidence
    import hashlib
    nt = set()
    for c in c16cases:
        if len(c["models"]) >= 2 or c["history"]:
            nt.add(hashlib.sha1(json.dumps([c["models"], c["history"]], sort_keys=True).encode()).hexdigest())
    for r in drows:
        s = json.dumps(r["action"], ensure_ascii=True)
        if "\\u" in s or "omitted" in s:
            nt.add(hashlib.sha1(s.encode()).hexdigest())
    chk.cov["evaluations"] = len(c16cases) + len(drows)
    chk.cov["distinct_nontrivial"] = len(nt)
    chk.cov["rule"] = RULE
    small = [c for c in c16cases if c["history"] and len(json.dumps(c)) < 6000]
    chk.cov["samples"] = ([{"models": small[0]["models"], "history": small[0]["history"], "tag": small[0]["tag"]}] if small else []) + \
                         [{"action": r["action"]} for r in drows if r["panic"]][:1] + [{"action": r["action"]} for r in drows if not r["panic"]][-2:]
    chk.cov["distribution"] = {"o_c16_stage_status": o16["stage_status"], "o_c16_projects": o16["cases"], "subprocess_batches": o16["batches"],
                               "display_actions": len(drows), "display_panics": n_disp_panics,
                               "project_streams": dict(collections.Counter(c["tag"].split(":")[0] for c in c16cases)),
                               "seaorm_render_status": exprun.distribution(run)["seaorm_render_status"]}
    chk.cov["traces_validated_against_impl"] = len(drows) + sum(len(o["tables"]) for o in obs)
    chk.cov["correspondences"] = {"K-disp(Display text / panic, to_display_string)": {"cases": len(drows), "mismatches": len(disp["mismatches"])},
                                  "K-exp(seaorm declarations incl. divergence)": {"cases": sum(len(o["tables"]) for o in obs), "mismatches": len(rel)},
                                  "PanicSites": {"sites": sites.get("panic_sites"), "table_entries": sites.get("table_entries"),
                                                 "undischarged": len(sites.get("undischarged_panic", [])), "stale": sites.get("stale_panic"),
                                                 "tagged_unreviewed(query builder)": sites.get("unreviewed")}}
    ok_disp = sum(1 for r in drows if not dcls.get(str(r["idx"])))
    chk.cov["theorem_coverage"] = {"actions": len(drows), "display_total applies (no hypothesis)": len(drows),
                                   "actions in the class of the fixed finding C16-display-rawsql-slice (byte 47 inside a character), all rendered": len(drows) - ok_disp,
                                   "stages_only_tested": "build_plan_queries/.build (3 backends), exporter text rendering (planner: proved on the M1 model)",
                                   "oracle_failures": n_disp_panics + len(fails), "classified_known": dict(known_hits), "unexplained": len(unexplained)}
    chk.cov["cached_run"] = {"disp": disp.get("cached"), "exp": exp.get("cached"), "c16": o16.get("cached")}


def planner_stage(chk):
    """Planner part of C16: coq/m1/Properties/C16_planner.v (the planner model never ends in its panic /
    out-of-fuel outcome).  Its pins are added to this check's obligations."""
    name = "C16_planner"
    bad = vflib.grep_forbidden("m1")
    rc, out = vflib.build_layer("m1", targets=vflib.model_targets("m1") + ["Properties/%s.vo" % name])
    if rc != 0:
        import re
        m = re.findall(r'File "([^"]+)", line (\d+)', out)
        chk.violation(vflib.write_replay(PROP, "theorem:%s-build" % name, {"layer": "m1", "first_error": m[:1], "log_tail": out[-3000:]}), True)
        chk.cov["obligations"] = chk.cov.get("obligations", 0) + 5
        return False
    r = vflib.compile_property("m1", name)
    chk.cov["obligations"] = chk.cov.get("obligations", 0) + r["obligations"]
    chk.cov["discharged"] = chk.cov.get("discharged", 0) + r["discharged"]
    chk.cov["theorems"] = chk.cov.get("theorems", []) + r["theorems"]
    chk.cov["axioms_reported"] = sorted(set(chk.cov.get("axioms_reported", [])) | set(r["axioms"]))
    chk.cov["closed_under_global_context"] = chk.cov.get("closed_under_global_context", 0) + r["closed"]
    chk.cov["checker_cmd"] = chk.cov.get("checker_cmd", "") + " && coqc coq/m1/Properties/%s.v" % name
    unexpected = [a for a in r["axioms"] if a.split(".")[-1] not in {x.split(".")[-1] for x in vflib.AXIOM_ALLOW}]
    ok = True
    if not r["ok"]:
        import re
        m = re.findall(r'File "([^"]+)", line (\d+)', r["output"])
        chk.violation(vflib.write_replay(PROP, "theorem:%s" % name, {"file": "coq/m1/Properties/%s.v" % name, "first_error": m[:1],
                                                                     "log_tail": r["output"][-3000:]}), True)
        ok = False
    if unexpected or bad:
        chk.violation(vflib.write_replay(PROP, "theorem:axioms", {"unexpected_axioms": unexpected, "forbidden": bad}), True)
        ok = False
    return ok


def run(tier, seed):
    chk = vflib.Check(PROP, tier, seed)
    chk.assumptions = ["PROVED (model = coq/exp/Model/Display.v, Names.v; tie = K-disp, K-exp inside Coq): Display for MigrationAction is total for all actions (the RawSql arm cuts at the largest char boundary <= 47) and its text is the pre-fix one wherever that did not panic, in particular for ASCII; totality of the CLI's format_action model, the FK-chain walk of the SeaORM exporter (resolve_fk_target with its visited set) ends on every slice, cycles included, and computing the declarations of a table never exhausts any fuel (resolve_fk_terminates, members_never_diverge)",
                       "PROVED for the planner model (coq/m1/Model/Diff.v, tied to plan_next_migration by K-diff in the M1 checks; pins in coq/m1/Properties/C16_planner.v): the two fuelled Kahn sorts never run out of fuel and diff_actions / plan_next can only fail with DiffTableValidation or DiffCycle — never with the panic or out-of-fuel outcome",
                       "PARTIAL: SQL generation for the three backends and the text rendering of the exporters are covered by the PanicSites discharge table (every unwrap / expect / panic! / unreachable! / slice / index / direct recursion of the non-test code of core, planner, query, loader, exporter, cli has a tagged entry; 7 query-builder entries are tagged unreviewed) and by the oracle O-C16 (catch_unwind, subprocess per batch, wall-clock cap per stage): tests, not proofs",
                       "format_action is private to the vespertide binary: its model is proved total but is not tied to the code by a correspondence (the CLI is not run by this check)",
                       "panics inside dependencies (sea-query) are outside the PanicSites inventory; only the oracle sees them"]
    chk.cov["trusted_base"] = vflib.TRUSTED_COMMON + [
        "tools/panicsites.py + tools/rustscan.py (syntactic inventory of panic sites)",
        "UTF-8: the model treats a byte b as a continuation byte iff 128 <= b < 192 and Rust strings as valid UTF-8",
        "modelled, not verified: Unicode lower-casing of non-ASCII custom type names in to_display_string"]
    vflib.proof_stage(chk, "exp", PROP)
    planner_stage(chk)
    r = exprun.prepare(tier, seed)
    if "build_error" in r:
        chk.violation(vflib.write_replay(PROP, "correspondence:build", {"log": r["build_error"]}), True)
        return chk.finish()
    verdict(chk, r, tier, seed)
    return chk.finish()


def replay(path):
    rp = json.load(open(path))
    inp = rp.get("input") or rp.get("first_differing_case")
    if not inp:
        print("replay file has no input (%s)" % rp.get("kind")); print(json.dumps(rp, indent=1)[:3000])
        return 1
    r = exprun.replay_run(PROP, models=inp.get("models"), action=inp.get("action"))
    if r is None:
        return 1
    bad = []
    if inp.get("history"):
        # replace the generated O-C16 case list by the stored project
        json.dump({"idx": 0, "tag": "replay", "models": inp.get("models") or [], "history": inp["history"], "tool_history": True},
                  open(os.path.join(r["dir"], "c16cases.jsonl"), "w"))
        open(os.path.join(r["dir"], "c16cases.jsonl"), "a").write("\n")
        r["meta"]["n_c16"] = 1
    o16 = exprun.c16_oracle(r)
    bad += o16["fails"]
    bad += [{"display_panic": x["action"]} for x in exprun.jl(os.path.join(r["dir"], "disp.jsonl")) if x["panic"] and x["tag"].startswith("corpus:")]
    for o in exprun.jl(os.path.join(r["dir"], "obs.jsonl")):
        bad += [{"table": t["name"], "seaorm": t["sea"]} for t in o["tables"] if t["sea"]["status"] not in ("ok", "unparsed")]
    print(json.dumps(bad, indent=1, ensure_ascii=False)[:3000])
    if bad:
        print("VIOLATION property=%s replay=%s" % (PROP, path))
    return 1 if bad else 0
