"""C14 — a table prefix renames tables and nothing else (planner / action level; the SQL half is checked per backend)."""
import m1run

RULE = ("generated evolutions; for every case the real planner is re-run on the literally renamed project (prefix app_) and must produce the literally renamed plan, "
        "and MigrationPlan::with_prefix must equal the literal renaming; non-trivial = plan with >=2 actions of >=2 kinds or >=2 tables, distinct by hash")


def parts(chk, res, rows):
    """The halves of C14 below and above the planner: SQL generation per backend, the runtime migrator (coq/mig/Properties/C14_mig.v + the final catalog of real runs under a prefix equals the
    literal renaming of the run without prefix, version table included) (derived names carry the prefix: Properties/C14_<backend>.v
    + prefix_agrees evaluated inside Coq on every generated migration) and the CLI (`sql` / `log` of a prefixed project print exactly what
    they print for the literally renamed project: coq/cli/Properties/C14_cli.v + the real binary run on both projects)."""
    import importlib, os
    import vflib
    out = {}
    for mod, fn, gate in (("sqliterun", "c14_part", "C02"), ("pgrun", "c14_part", "C03"), ("mysqlrun", "c14_part", "C04"), ("clirun", "c14_part", "C13"), ("migrun", "c14_part", "C09")):
        if not os.path.exists(os.path.join(vflib.ROOT, "props", gate + ".json")):
            out[mod] = "layer not finished yet (props/%s.json absent)" % gate
            continue
        try:
            r = getattr(importlib.import_module(mod), fn)(chk.tier, chk.seed)
        except Exception as e:
            out[mod] = "error: %s" % e
            chk.violation(vflib.write_replay("C14", "correspondence:%s.%s" % (mod, fn), {"error": str(e)[-1500:]}), True)
            continue
        out[mod] = {k: r.get(k) for k in ("ok", "obligations", "discharged", "details")}
        chk.cov["obligations"] += int(r.get("obligations", 0) or 0)
        chk.cov["discharged"] += int(r.get("discharged", 0) or 0)
        if not r.get("ok", False):
            fi = r.get("failing_input")
            chk.violation(vflib.write_replay("C14", ("oracle:%s-prefix" if fi else "theorem:%s-prefix") % mod, {"input": fi, "details": r.get("details")}), not fi)
    chk.cov["parts"] = out
    # the CLI and the runtime statements of C14 are pinned in the cli and mig layers
    for layer, name in (("cli", "C14_cli"), ("mig", "C14_mig")):
        if not os.path.exists(os.path.join(vflib.ROOT, "coq", layer, "Properties", name + ".v")):
            continue
        rc, log = vflib.build_layer(layer, targets=vflib.model_targets(layer) + ["Properties/%s.vo" % name])
        if rc != 0:
            chk.violation(vflib.write_replay("C14", "theorem:%s-build" % name, {"layer": layer, "log_tail": log[-2500:]}), True)
            chk.cov["obligations"] += 2
            continue
        r = vflib.compile_property(layer, name)
        chk.cov["obligations"] += r["obligations"]
        chk.cov["discharged"] += r["discharged"]
        chk.cov["theorems"] = chk.cov.get("theorems", []) + r["theorems"]
        if r["discharged"] < r["obligations"] or r.get("axioms"):
            chk.violation(vflib.write_replay("C14", "theorem:%s" % name, {"result": {k: r.get(k) for k in ("obligations", "discharged", "axioms", "failed")}}), True)


def run(tier, seed):
    return m1run.m1_check("C14", tier, seed, subchecks=[4, 9], oracle_key="c14", known_ids=[], rule=RULE, extra=parts,
                          assumptions=["tie: K-diff(plan_next) and K-prefix (MigrationPlan::with_prefix) evaluated inside Coq on every case",
                                       "prefixes are assumed to contain no '.' (normalize_literal_dot_refuted shows the hypothesis is necessary)",
                                       "proved for all inputs: diff_equivariant, with_prefix_is_literal (no inline FK), apply_equivariant (no user index name equal to a derived name), plan_next_equivariant",
                                       "the SQL-generation half (derived names carry the prefix) is proved per backend in the sqlite/pg/mysql layers (Properties/C14_<backend>.v) when those layers are present"])


def replay(path):
    return m1run.m1_replay("C14", path, "c14")
