"""C14 — a table prefix renames tables and nothing else (planner / action level; the SQL half is checked per backend)."""
import m1run

RULE = ("generated evolutions; for every case the real planner is re-run on the literally renamed project (prefix app_) and must produce the literally renamed plan, "
        "and MigrationPlan::with_prefix must equal the literal renaming; non-trivial = plan with >=2 actions of >=2 kinds or >=2 tables, distinct by hash")


def run(tier, seed):
    return m1run.m1_check("C14", tier, seed, subchecks=[4, 9], oracle_key="c14", known_ids=[], rule=RULE,
                          assumptions=["tie: K-diff(plan_next) and K-prefix (MigrationPlan::with_prefix) evaluated inside Coq on every case",
                                       "prefixes are assumed to contain no '.' (normalize_literal_dot_refuted shows the hypothesis is necessary)",
                                       "proved for all inputs: diff_equivariant, with_prefix_is_literal (no inline FK), apply_equivariant (no user index name equal to a derived name), plan_next_equivariant",
                                       "the SQL-generation half (derived names carry the prefix) is proved per backend in the sqlite/pg/mysql layers (Properties/C14_<backend>.v) when those layers are present"])


def replay(path):
    return m1run.m1_replay("C14", path, "c14")
