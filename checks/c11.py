"""C11 — concurrent application starts never double-apply or corrupt a migration."""
import migrun

ASSUME = [
    "model = coq/mig/Model/Locking.v + Sqlite.v: SQLite rollback-journal file locks (UNLOCKED/SHARED/RESERVED/PENDING/EXCLUSIVE), deferred BEGIN, busy_timeout 0 => immediate Busy; interleaving at connection-call granularity, any number of instances; no hypothesis on the recorded ids (with a conflicting id nothing is committed and nobody returns Ok, C11_conflict_blocks_everyone); C11_steps_single_is_run ties the one-instance system to the sequential `run` of C09/C10",
    "tie = K-mig: 2 and 3 instances of the REAL generated code, each on its own sqlx-sqlite pool of one connection to one database file (sqlx defaults: rollback journal, foreign_keys=ON; busy_timeout set to 0), stepped call by call by the harness scheduler (no timers); after an instance returns the harness synchronises with the rollback sea-orm queues on drop before anybody else moves",
    "the model lets every user statement take RESERVED (true of any statement that changes the database file); a statement that turns out to be a no-op on the engine (e.g. CREATE TABLE IF NOT EXISTS on an existing table) takes it only later — this shifts where a loser gets Busy, not what can be committed; the corpus uses statements that always write",
    "outside the model (named): WAL mode, non-zero busy timeouts / busy handlers, cache spill taking EXCLUSIVE early, several connections per instance pool, PostgreSQL / MySQL locking",
]


def run(tier, seed):
    return migrun.mig_check("C11", tier, seed, ASSUME)


def replay(path):
    return migrun.mig_replay("C11", path)
