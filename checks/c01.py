"""C01 — a revision closes the gap: replayed history plus the new plan equals the models."""
import m1run

RULE = ("histories grown by the real planner (plan_next_migration + revision fill) from generated evolutions of loader-accepted "
        "model sets, 3-4 steps each, plus corpus witnesses; oracle = apply the filled plan to the replayed baseline and re-diff in both "
        "directions; non-trivial = plan with >=2 actions of >=2 kinds or >=2 tables, distinct by hash of (models, history)")


def theorem_coverage(chk, res, rows):
    """share of the sampled inputs that fall under a PROVED class theorem (C01_change / C01_local ...), as opposed to being
    vouched for by the oracle only; also a consistency test: hypothesis true must imply the oracle passed"""
    import vflib
    vflib.build_layer("m1", targets=["Corr/Hyp.vo", "Corr/Known2.vo"])
    cov = {}
    inconsistent = []
    for fn in ("hyp_C01_first", "hyp_C01_step", "hyp_C01_grow", "hyp_C01_change", "hyp_C01_core", "hyp_C01_local"):
        vals = m1run.eval_on_all_cases(res, fn)
        if vals is None:
            cov[fn] = "not evaluated"
            continue
        cov[fn] = sum(1 for v in vals.values() if v)
        for i, v in vals.items():
            o = rows[i].get("oracles", {}).get("c01")
            if v and o is not None and not o.get("ok", True):
                inconsistent.append((fn, i))
    judged = sum(1 for r in rows if r.get("oracles", {}).get("c01") is not None)
    chk.cov["theorem_coverage"]["cases_judged_by_oracle"] = judged
    chk.cov["theorem_coverage"]["cases_under_proved_class_theorem"] = cov
    for fn, i in inconsistent[:2]:
        # a proved theorem says the gap closes, the implementation says it does not: model or tie is wrong, or the code changed
        chk.violation(vflib.write_replay("C01", "theorem:%s-contradicted" % fn, {"input": m1run.input_of(rows[i]), "oracle": rows[i]["oracles"]["c01"]}))


def run(tier, seed):
    return m1run.m1_check("C01", tier, seed, subchecks=[1, 3, 4, 7, 8, 10], oracle_key="c01", known_ids=[], rule=RULE, extra=theorem_coverage,
                          assumptions=["tie: K-norm, K-apply(replay), K-diff(plan_next), K-fill evaluated inside Coq on every case",
                                       "histories are grown in memory by the real planner; the CLI path (revision writes, loader reads) is C12/C13",
                                       "C01_full_statement is refuted (C01_refuted); outside the classifier known_shrunk_constraint the claim rests on the oracle run, not yet on a theorem"])


def replay(path):
    return m1run.m1_replay("C01", path, "c01")
