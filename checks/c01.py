"""C01 — a revision closes the gap: replayed history plus the new plan equals the models."""
import m1run

RULE = ("histories grown by the real planner (plan_next_migration + revision fill) from generated evolutions of loader-accepted "
        "model sets, 3-4 steps each, plus corpus witnesses; oracle = apply the filled plan to the replayed baseline and re-diff in both "
        "directions; non-trivial = plan with >=2 actions of >=2 kinds or >=2 tables, distinct by hash of (models, history)")


def run(tier, seed):
    return m1run.m1_check("C01", tier, seed, subchecks=[1, 3, 4, 7, 8, 10], oracle_key="c01", known_ids=[], rule=RULE,
                          assumptions=["tie: K-norm, K-apply(replay), K-diff(plan_next), K-fill evaluated inside Coq on every case",
                                       "histories are grown in memory by the real planner; the CLI path (revision writes, loader reads) is C12/C13",
                                       "C01_full_statement is refuted (C01_refuted); outside the classifier known_shrunk_constraint the claim rests on the oracle run, not yet on a theorem"])


def replay(path):
    return m1run.m1_replay("C01", path, "c01")
