"""C02 — SQLite: generated SQL runs on a real SQLite and builds exactly the believed schema; no leftover helper object."""
import sqliterun


def run(tier, seed):
    return sqliterun.c02_check(tier, seed)


def replay(path):
    def oracle(rows, fk):
        for h, recs in sqliterun.by_history(rows).items():
            f, _ = sqliterun.oracle_c02_history(recs, fk)
            if f:
                return f
        return None
    return sqliterun.replay_history("C02", path, oracle)
