"""C07 — equivalent models produce no migration; normalisation is idempotent and lossless."""
import m1run

RULE = ("evolutions of loader-accepted model sets from the structured generator (DESIGN §4.3) + malformed stream + corpus; "
        "each case also draws 3 combinations of the equivalence-preserving rewriter; non-trivial = plan with >=2 actions of >=2 kinds or >=2 tables, distinct by hash of (models, history)")


def run(tier, seed):
    return m1run.m1_check("C07", tier, seed, subchecks=[1, 4], oracle_key="c07", known_ids=[], rule=RULE,
                          assumptions=["model = coq/m1/Model/Normalize.v, Diff.v; tie = K-norm and K-diff evaluated inside Coq on every case",
                                       "respelling equivalences are exercised by the implementation-side oracle (a test), the theorems proved are normalize_idempotent / normalize_lossless / diff_self_empty"])


def replay(path):
    return m1run.m1_replay("C07", path, "c07")
