"""Shared runner for the M1 (schema algebra) family: generate cases with hm1 against /repo's working
tree, evaluate the model on them inside Coq, return rows + mismatches. Results are cached per
(repo content hash, harness hash, seed, size) so the M1-family checks of one sweep share the work."""
import glob, hashlib, json, os, shutil, time
import vflib
from vflib import ROOT, CACHE

SUBCHECK = {1: "K-norm", 2: "K-valid(loader)", 3: "K-apply(replay)", 4: "K-diff(plan_next)",
            5: "K-valid(find_missing_fill_with)", 6: "K-valid(find_missing_enum_fill_with)",
            7: "K-fill(revision)", 8: "K-valid(validate_migration_plan)", 9: "K-prefix",
            10: "K-valid(validate_migration_plan, unfilled plan)"}


def tree_hash(paths):
    h = hashlib.sha1()
    for base in paths:
        for f in sorted(glob.glob(os.path.join(base, "**", "*"), recursive=True)):
            if os.path.isfile(f) and "/target/" not in f and "/.git/" not in f:
                h.update(f.encode())
                h.update(open(f, "rb").read())
    return h.hexdigest()[:16]


def sizes(tier):
    if tier == "thorough":
        return {"evolutions": 1200, "steps": 4, "malformed": 200, "per_shard": 60}
    return {"evolutions": 160, "steps": 3, "malformed": 40, "per_shard": 40}


@vflib.serialized("run_m1")
def run_m1(tier, seed, chk=None):
    """returns dict(rows, mismatches {case_idx: [subchecks]}, errors [..], meta, dir)"""
    sz = sizes(tier)
    rc, out, binp = vflib.build_harness("hm1")
    if rc != 0:
        return {"build_error": out[-3000:]}
    rc2, out2 = vflib.build_layer("m1", targets="models")
    if rc2 != 0:
        return {"coq_error": out2[-3000:]}
    key = tree_hash(["/repo/crates/vespertide-core", "/repo/crates/vespertide-planner", "/repo/crates/vespertide-naming",
                     "/repo/crates/vespertide-loader", "/repo/crates/vespertide-config",
                     os.path.join(ROOT, "harness", "common"), os.path.join(ROOT, "harness", "m1"),
                     os.path.join(ROOT, "coq", "m1", "Base"), os.path.join(ROOT, "coq", "m1", "Model"),
                     os.path.join(ROOT, "coq", "m1", "Corr"), os.path.join(ROOT, "corpus", "m1")])
    d = os.path.join(CACHE, "m1run", "%s_%s_%s" % (key, tier, seed))
    done = os.path.join(d, "result.json")
    if os.path.exists(done):
        res = json.load(open(done))
        res["rows"] = [json.loads(l) for l in open(os.path.join(d, "cases.jsonl"))]
        res["cached"] = True
        return res
    shutil.rmtree(d, ignore_errors=True)
    # keep the cache small: drop older runs
    for old in glob.glob(os.path.join(CACHE, "m1run", "*_%s_%s" % (tier, seed))):
        if old != d:   # only stale runs of the same tier and seed: a concurrent run of another tier keeps its directory
            shutil.rmtree(old, ignore_errors=True)
    os.makedirs(d)
    t0 = time.time()
    rc, out, _ = vflib.sh([binp, "gen", "--seed", str(seed), "--evolutions", str(sz["evolutions"]), "--steps", str(sz["steps"]),
                           "--malformed", str(sz["malformed"]), "--per-shard", str(sz["per_shard"]), "--out", d,
                           "--corpus", os.path.join(ROOT, "corpus", "m1")], timeout=1200)
    if rc != 0:
        return {"build_error": "hm1 gen failed: " + out[-2000:]}
    meta = json.load(open(os.path.join(d, "meta.json")))
    res = vflib.run_shards("m1", d, "cases_m1_*.v")
    mism, errors = {}, []
    idx_map = meta["idx_map"]
    for f, rc, o, dt in res:
        if rc != 0:
            errors.append({"shard": os.path.basename(f), "log": o[-1500:]})
            continue
        blocks = vflib.parse_eval_outputs(o)
        for (i, subs) in vflib.parse_nat_pairs(blocks[0] if blocks else ""):
            mism[str(idx_map[i])] = subs
    load_bad = None
    for f, rc, o, dt in vflib.run_shards("m1", d, "cases_load_*.v"):
        blocks = vflib.parse_eval_outputs(o)
        if rc != 0 or not blocks:
            errors.append({"shard": os.path.basename(f), "log": o[-1500:]})
        else:
            load_bad = (load_bad or 0) + int(blocks[0].replace("%nat", "").strip() or 0)
    out = {"mismatches": mism, "errors": errors, "meta": meta, "dir": d, "gen_s": round(time.time() - t0, 1), "cached": False, "load_bad": load_bad}
    json.dump(out, open(done, "w"))
    out["rows"] = [json.loads(l) for l in open(os.path.join(d, "cases.jsonl"))]
    return out


def model_output_for(case_dir, shard_rel_idx):
    return None


def distribution(rows):
    import collections
    kinds, nact, tags = collections.Counter(), collections.Counter(), collections.Counter()
    for r in rows:
        for a in r.get("action_kinds", []):
            kinds[a] += 1
        nact[str(min(r.get("n_actions", 0), 10))] += 1
        tags[r.get("tag", "?").split(":")[0]] += 1
    return {"action_kinds": dict(kinds), "plan_sizes": dict(nact), "streams": dict(tags)}


def nontrivial(rows):
    """distinct cases whose plan has >= 2 actions of >= 2 kinds or that involve >= 2 tables (Appendix D)"""
    seen = set()
    for r in rows:
        if r.get("n_actions", 0) >= 2 and (len(r.get("action_kinds", [])) >= 2 or r.get("n_tables", 0) >= 2):
            seen.add(hashlib.sha1(json.dumps([r.get("models"), r.get("history")], sort_keys=True).encode()).hexdigest())
    return len(seen)


def classify_in_coq(name, classifier, inputs_gallina):
    """Evaluate a Gallina boolean classifier on inputs (list of term strings) -> list of bools."""
    d = os.path.join(CACHE, "classify")
    os.makedirs(d, exist_ok=True)
    f = os.path.join(d, "classify_%s.v" % name)
    body = "From VV.M1 Require Import Corr Known.\nEval vm_compute in map (%s) [\n%s\n].\n" % (classifier, ";\n".join(inputs_gallina))
    open(f, "w").write(body)
    rc, out, _ = vflib.sh(["timeout", "600", "coqc", "-noglob"] + vflib.q_flags("m1") + [f], cwd=d, timeout=660)
    if rc != 0:
        return None, out
    return vflib.parse_bool_list(vflib.parse_eval_outputs(out)[0]), out


def classify_cases(d, meta, idxs, classifier):
    """Evaluate `classifier : m1_case -> bool` (from Proofs/Known.v) on the cases with global indices idxs."""
    if not idxs:
        return {}
    per = meta["per_shard"]
    inv = {g: k for k, g in enumerate(meta["idx_map"])}
    lines = ["From VV.M1 Require Import Corr Known2."]
    shards = sorted({inv[i] // per for i in idxs if i in inv})
    for s in shards:
        lines.append("From Cases Require cases_m1_%03d." % s)
    order = []
    for i in idxs:
        if i not in inv:
            continue
        k = inv[i]
        order.append(i)
        lines.append("Eval vm_compute in match nth_error cases_m1_%03d.cases %d with Some c => %s c | None => false end." % (k // per, k % per, classifier))
    f = os.path.join(d, "classify_%s.v" % classifier)
    open(f, "w").write("\n".join(lines) + "\n")
    rc, out, _ = vflib.sh(["timeout", "900", "coqc", "-noglob"] + vflib.q_flags("m1") + ["-Q", d, "Cases", f], cwd=d, timeout=960)
    if rc != 0:
        return None
    vals = [b.strip() == "true" for b in vflib.parse_eval_outputs(out)]
    return dict(zip(order, vals))


def input_of(row):
    return {"models": row.get("models"), "history": row.get("history"), "plan": row.get("plan"), "filled": row.get("filled"),
            "how_to_replay": "write each model to models/<name>.json and each history plan to migrations/, then run the vespertide CLI or ./vf replay"}


def m1_check(prop, tier, seed, subchecks, oracle_key, known_ids, rule, assumptions, extra=None, oracle_ok=None):
    """Generic M1-family check: proofs + correspondence + oracle + known-findings classification."""
    chk = vflib.Check(prop, tier, seed)
    chk.assumptions = assumptions
    chk.cov["trusted_base"] = vflib.TRUSTED_COMMON + [
        "modelled, not verified: f64 printing (carried as rendered text); error messages (only kinds compared)"]
    vflib.proof_stage(chk, "m1", prop)
    res = run_m1(tier, seed)
    if "build_error" in res or "coq_error" in res:
        rp = vflib.write_replay(prop, "correspondence:build", {"log": res.get("build_error") or res.get("coq_error")})
        chk.violation(rp, True)
        return chk.finish()
    rows, mism = res["rows"], res["mismatches"]
    chk.cov["evaluations"] = len(rows)
    chk.cov["distinct_nontrivial"] = nontrivial(rows)
    chk.cov["rule"] = rule
    chk.cov["distribution"] = distribution(rows)
    chk.cov["distribution"]["rejected_edits"] = res["meta"].get("rejected_edits")
    chk.cov["samples"] = [input_of(r) for r in rows if r.get("n_actions", 0) >= 2][:2] or [input_of(rows[0])]
    chk.cov["traces_validated_against_impl"] = len(rows)
    chk.cov["cached_run"] = res.get("cached", False)
    rel = {i: [s for s in subs if s in subchecks] for i, subs in mism.items()}
    rel = {i: s for i, s in rel.items() if s}
    corr = {}
    for sc in subchecks:
        corr[SUBCHECK[sc]] = {"cases": len(rows), "mismatches": sum(1 for s in rel.values() if sc in s)}
    chk.cov["correspondences"] = corr
    panics = [r for r in rows if r.get("panic")]
    # implementation-side oracle
    def ok(r):
        o = r.get("oracles", {}).get(oracle_key)
        if o is None:
            return True
        return oracle_ok(o) if oracle_ok else o.get("ok", True)
    failing = [i for i, r in enumerate(rows) if not ok(r)]
    known = [k for k in vflib.load_known() if k["property"] == prop]
    open_known = [k for k in known if k.get("status") == "open"]
    unexplained = list(failing)
    covered = {}
    for k in open_known:
        cls = classify_cases(res["dir"], res["meta"], unexplained, k["classifier"])
        if cls is None:
            rp = vflib.write_replay(prop, "theorem:classifier-%s" % k["classifier"], {"note": "classifier did not evaluate"})
            chk.violation(rp, True)
            continue
        hit = [i for i in unexplained if cls.get(i)]
        covered[k["id"]] = len(hit)
        # the stored witness of an open finding must still fail on the implementation (corpus cases run first)
        wit = [i for i, r in enumerate(rows) if r.get("tag", "") == "corpus:" + os.path.basename(k.get("witness", "")) and not ok(r)]
        if wit or hit:
            chk.known_finding(k["id"], k["what"])
        else:
            chk.notes.append("NOTE stale known finding %s: its witness no longer fails" % k["id"])
        unexplained = [i for i in unexplained if not cls.get(i)]
    chk.cov["theorem_coverage"] = {"oracle_failures": len(failing), "classified_known": covered, "unexplained": len(unexplained)}
    for i in unexplained[:5]:
        r = rows[i]
        rp = vflib.write_replay(prop, "oracle", {"tier": tier, "seed": seed, "input": input_of(r), "oracle": r["oracles"][oracle_key],
                                                 "tag": r.get("tag"), "replay_cmd": "./vf replay %s <this file>" % prop})
        chk.violation(rp)
    for r in panics[:3]:
        rp = vflib.write_replay(prop, "oracle:panic", {"input": input_of(r)})
        chk.violation(rp)
    # correspondence broken and the oracle found nothing new: still a violation, without input
    if (rel or res["errors"]) and not unexplained:
        first = sorted(rel.items(), key=lambda kv: int(kv[0]))[:1]
        payload = {"tier": tier, "seed": seed, "broken": [SUBCHECK[s] for s in sorted({x for v in rel.values() for x in v})],
                   "shard_errors": res["errors"][:2]}
        if first:
            i = int(first[0][0])
            payload["first_differing_case"] = input_of(rows[i])
            payload["subchecks"] = [SUBCHECK[s] for s in first[0][1]]
        rp = vflib.write_replay(prop, "correspondence:" + "+".join(payload["broken"]) if payload["broken"] else "correspondence:shard-error", payload)
        chk.violation(rp, True)
    if extra:
        extra(chk, res, rows)
    return chk.finish()


def m1_replay(prop, path, oracle_key):
    """Re-run the implementation-side oracle on the input stored in a replay file."""
    rp = json.load(open(path))
    inp = rp.get("input") or rp.get("first_differing_case")
    if not inp:
        print("replay file has no input (%s)" % rp.get("kind"))
        print(json.dumps(rp, indent=1)[:3000])
        return 1
    d = os.path.join(CACHE, "replay_%s" % prop)
    shutil.rmtree(d, ignore_errors=True)
    os.makedirs(os.path.join(d, "corpus"))
    # an evolution whose last step is the failing one: history is replayed by re-planning, so store model sets
    json.dump({"models": [inp["models"]], "history": inp.get("history")}, open(os.path.join(d, "corpus", "replay.json"), "w"))
    rc, out, binp = vflib.build_harness("hm1")
    rc, out, _ = vflib.sh([binp, "gen", "--seed", "1", "--evolutions", "0", "--malformed", "0", "--out", d, "--corpus", os.path.join(d, "corpus"),
                           "--history-from-corpus", "1"])
    rows = [json.loads(l) for l in open(os.path.join(d, "cases.jsonl"))]
    bad = 0
    for r in rows:
        o = r.get("oracles", {}).get(oracle_key)
        print(json.dumps(o))
        if o is not None and not o.get("ok", True):
            bad = 1
    if bad:
        print("VIOLATION property=%s replay=%s" % (prop, path))
    return bad


def planner_dependency(chk):
    """Used by the checks of properties that depend on the planner (C02-C05, C09, C13): the M1 correspondences K-apply and
    K-diff must hold on the shared generated histories; a mismatch is a broken correspondence of that property too."""
    res = run_m1(chk.tier, chk.seed)
    if "build_error" in res or "coq_error" in res:
        chk.violation(vflib.write_replay(chk.prop, "correspondence:m1-build", {"log": (res.get("build_error") or res.get("coq_error"))[-1500:]}), True)
        return
    # C12 / C13 speak about every command reading the project: the loader's model validation (validate_schema, K-valid loader)
    # and normalisation are part of what they quantify over
    wanted = (1, 2, 3, 4, 8, 10) if chk.prop in ("C12", "C13") else (3, 4, 8, 10) if chk.prop == "C05" else (3, 4)
    rel = {i: [s for s in subs if s in wanted] for i, subs in res["mismatches"].items()}
    rel = {i: s for i, s in rel.items() if s}
    corr = chk.cov.setdefault("correspondences", {})
    if isinstance(corr, dict) and 2 in wanted:
        corr["K-valid(m1, loader: validate_schema of the models) + K-norm"] = {"cases": len(res["rows"]), "mismatches": sum(1 for s in rel.values() if 1 in s or 2 in s)}
    if isinstance(corr, dict) and 8 in wanted:
        corr["K-valid(m1, validate_migration_plan filled+unfilled)"] = {"cases": len(res["rows"]), "mismatches": sum(1 for s in rel.values() if 8 in s or 10 in s)}
    if isinstance(corr, dict):
        corr["K-apply(m1, planner dependency)"] = {"cases": len(res["rows"]), "mismatches": sum(1 for s in rel.values() if 3 in s)}
        corr["K-diff(m1, planner dependency)"] = {"cases": len(res["rows"]), "mismatches": sum(1 for s in rel.values() if 4 in s)}
    if rel or res["errors"]:
        first = sorted(rel.items(), key=lambda kv: int(kv[0]))[:1]
        payload = {"broken": sorted({SUBCHECK[x] for v in rel.values() for x in v}), "shard_errors": res["errors"][:2],
                   "note": "the planner (diff_schemas / apply_action) no longer agrees with its Coq model; this property quantifies over planner-produced plans"}
        if first:
            payload["first_differing_case"] = input_of(res["rows"][int(first[0][0])])
        chk.violation(vflib.write_replay(chk.prop, "correspondence:planner(m1)", payload), True)


def eval_on_all_cases(res, fn, imports="Corr Known2 Hyp"):
    """Evaluate a Gallina boolean `fn : m1_case -> bool` on every generated case (one small .v per shard, in parallel)."""
    d, meta = res["dir"], res["meta"]
    shards = sorted(glob.glob(os.path.join(d, "cases_m1_*.v")))
    sub = os.path.join(d, "hyp_" + fn)
    os.makedirs(sub, exist_ok=True)
    for f in shards:
        name = os.path.basename(f)[:-2]
        open(os.path.join(sub, "h_%s.v" % name), "w").write(
            "From VV.M1 Require Import %s.\nFrom Cases Require %s.\nEval vm_compute in map %s %s.cases.\n" % (imports, name, fn, name))
    flags = vflib.q_flags("m1") + ["-Q", d, "Cases"]
    from concurrent.futures import ThreadPoolExecutor

    def one(f):
        rc, out, dt = vflib.sh(["timeout", "900", "coqc", "-noglob"] + flags + [f], cwd=sub, timeout=960)
        blocks = vflib.parse_eval_outputs(out)
        return vflib.parse_bool_list(blocks[0]) if rc == 0 and blocks else None
    with ThreadPoolExecutor(max_workers=16) as ex:
        parts = list(ex.map(one, sorted(glob.glob(os.path.join(sub, "h_*.v")))))
    if any(p is None for p in parts):
        return None
    flat = [b for p in parts for b in p]
    # map back to global case indices
    return {g: flat[k] for k, g in enumerate(meta["idx_map"]) if k < len(flat)}
