"""Shared runner for the serde layer (C12, C15): build hserde against /repo's working tree, generate
round-trip / mutation / revision cases, evaluate the model on them inside Coq (K-serde), return rows +
mismatches + class bits. Results are cached per (repo content hash, harness hash, model hash, seed, tier)
so that C12 and C15 of one sweep share the work."""
import glob, hashlib, json, os, re, shutil, time
import vflib
from vflib import ROOT, CACHE

LAYER = "serde"
WS = "harness_serde"
SUBCHECK = {1: "K-serde(encode, struct order)", 2: "K-serde(decode of serde_json text)",
            3: "K-serde(encode, to_value + $schema file form)", 4: "K-serde(decode of file form)",
            5: "K-serde(mutated documents: accept/reject and decoded value)",
            6: "K-fill(revision)", 7: "K-valid(validate_migration_plan of the written plan)",
            8: "K-valid(validate_migration_plan of every round-trip plan)"}
CLASS_BITS = {"known_C12_nullable_default": 0, "known_C12_empty_int_enum": 1, "known_C12_nonfinite_default": 2, "in_image": 3}


def tree_hash(paths):
    h = hashlib.sha1()
    for base in paths:
        if os.path.isfile(base):
            h.update(open(base, "rb").read())
            continue
        for f in sorted(glob.glob(os.path.join(base, "**", "*"), recursive=True)):
            if os.path.isfile(f) and "/target/" not in f and "/.git/" not in f and not f.endswith((".vo", ".vok", ".vos", ".glob", ".aux")):
                h.update(f.encode())
                h.update(open(f, "rb").read())
    return h.hexdigest()[:16]


def sizes(tier):
    if tier == "thorough":
        return {"evolutions": 500, "steps": 4, "wild": 500, "mutations": 6000, "per_shard": 150}
    return {"evolutions": 60, "steps": 3, "wild": 60, "mutations": 600, "per_shard": 60}


def parse_classes(term):
    """'[(3, [true; false; false; true]); ...]' -> {3: [True, False, False, True]}"""
    out = {}
    for m in re.finditer(r"\((\d+),\s*\[([^\]]*)\]\)", term.replace("%nat", "")):
        out[int(m.group(1))] = [x == "true" for x in re.findall(r"true|false", m.group(2))]
    return out


def build():
    rc, out, binp = vflib.build_harness("hserde", ws=WS)
    if rc != 0:
        return None, {"build_error": out[-3000:]}
    return binp, None


@vflib.serialized("run_serde")
def run_serde(tier, seed, corpus=None, tag=""):
    """returns dict(rows, mismatches {case_idx: [subchecks]}, classes {case_idx: [bits]}, errors, meta, dir)"""
    sz = sizes(tier)
    binp, err = build()
    if err:
        return err
    rc2, out2 = vflib.build_layer(LAYER)
    if rc2 != 0:
        return {"coq_error": out2[-3000:]}
    corpus = corpus or os.path.join(ROOT, "corpus", "serde")
    key = tree_hash(["/repo/crates/vespertide-core", "/repo/crates/vespertide-planner", "/repo/crates/vespertide-config",
                     "/repo/crates/vespertide-naming", "/repo/Cargo.lock",
                     os.path.join(ROOT, "harness", "common"), os.path.join(ROOT, WS, "hserde"),
                     os.path.join(ROOT, "coq", "m1", "Base"), os.path.join(ROOT, "coq", "m1", "Model"),
                     os.path.join(ROOT, "coq", LAYER, "Model"), os.path.join(ROOT, "coq", LAYER, "Corr"), corpus])
    d = os.path.join(CACHE, "serderun", "%s_%s_%s%s" % (key, tier, seed, tag))
    done = os.path.join(d, "result.json")
    os.makedirs(os.path.join(CACHE, "serderun"), exist_ok=True)
    import fcntl
    lock = open(os.path.join(CACHE, "serderun", ".lock"), "w")
    fcntl.flock(lock, fcntl.LOCK_EX)          # C12 and C15 of one sweep may start together
    try:
        return _run_locked(d, done, binp, sz, seed, corpus, tag)
    finally:
        fcntl.flock(lock, fcntl.LOCK_UN)
        lock.close()


def _run_locked(d, done, binp, sz, seed, corpus, tag):
    if os.path.exists(done):
        res = json.load(open(done))
        res["rows"] = [json.loads(l) for l in open(os.path.join(d, "cases.jsonl"))]
        res["classes"] = {int(k): v for k, v in res["classes"].items()}
        res["cached"] = True
        return res
    shutil.rmtree(d, ignore_errors=True)
    # prune only older runs of the SAME tier and seed (another tier / seed may be running right now),
    # and anything older than six hours
    suffix = "_%s_%s%s" % (d.rsplit("_", 2)[1], d.rsplit("_", 2)[2], "")
    for old in glob.glob(os.path.join(CACHE, "serderun", "*")):
        if old == d or not os.path.isdir(old):
            continue
        try:
            stale = time.time() - os.path.getmtime(old) > 6 * 3600
        except OSError:
            continue
        if old.endswith(suffix) or stale:
            shutil.rmtree(old, ignore_errors=True)
    os.makedirs(d)
    t0 = time.time()
    if tag:
        sz = {"evolutions": 0, "steps": 1, "wild": 0, "mutations": 0, "per_shard": 60}
    rc, out, _ = vflib.sh([binp, "gen", "--seed", str(seed), "--evolutions", str(sz["evolutions"]), "--steps", str(sz["steps"]),
                           "--wild", str(sz["wild"]), "--mutations", str(sz["mutations"]), "--per-shard", str(sz["per_shard"]),
                           "--out", d, "--corpus", corpus], timeout=1200)
    if rc != 0:
        return {"build_error": "hserde gen failed: " + out[-2000:]}
    meta = json.load(open(os.path.join(d, "meta.json")))
    res = vflib.run_shards(LAYER, d, "cases_serde_*.v")
    mism, classes, errors = {}, {}, []
    idx_map = meta["idx_map"]
    for f, rc, o, dt in res:
        if rc != 0:
            errors.append({"shard": os.path.basename(f), "log": o[-1500:]})
            continue
        blocks = vflib.parse_eval_outputs(o)
        for (i, subs) in vflib.parse_nat_pairs(blocks[0] if blocks else ""):
            mism[str(idx_map[i])] = subs
        for i, bits in parse_classes(blocks[1] if len(blocks) > 1 else "").items():
            classes[idx_map[i]] = bits
    out = {"mismatches": mism, "classes": {str(k): v for k, v in classes.items()}, "errors": errors, "meta": meta, "dir": d,
           "gen_s": round(time.time() - t0, 1), "cached": False}
    json.dump(out, open(done, "w"))
    out["classes"] = classes
    out["rows"] = [json.loads(l) for l in open(os.path.join(d, "cases.jsonl"))]
    return out


def model_output_for(res, case_idx, kind):
    """Print the model's own output for one case (for the replay file of a broken correspondence)."""
    meta, d = res["meta"], res["dir"]
    inv = {g: k for k, g in enumerate(meta["idx_map"])}
    if case_idx not in inv:
        return None
    k = inv[case_idx]
    per = meta["per_shard"]
    f = os.path.join(d, "model_out_%d.v" % case_idx)
    body = ["From VV.SERDE Require Import CorrSerde.", "From Cases Require cases_serde_%03d." % (k // per),
            "Eval vm_compute in match nth_error cases_serde_%03d.cases %d with" % (k // per, k % per),
            " | Some (RtTable v j1 _ j2 _) => Some (encode_table v, option_map encode_table (decode_table j1), option_map encode_table (decode_table j2))",
            " | Some (RtPlan v j1 _ j2 _) => Some (encode_plan v, option_map encode_plan (decode_plan j1), option_map encode_plan (decode_plan j2))",
            " | Some (RtConfig v j1 _ j2 _) => Some (encode_config v, option_map encode_config (decode_config j1), option_map encode_config (decode_config j2))",
            " | Some (MutTable j _) => Some (JNull, option_map encode_table (decode_table j), None)",
            " | Some (MutPlan j _) => Some (JNull, option_map encode_plan (decode_plan j), None)",
            " | Some (MutConfig j _) => Some (JNull, option_map encode_config (decode_config j), None)",
            " | _ => None end."]
    open(f, "w").write("\n".join(body) + "\n")
    rc, out, _ = vflib.sh(["timeout", "300", "coqc", "-noglob"] + vflib.q_flags(LAYER) + ["-Q", d, "Cases", f], cwd=d, timeout=330)
    if rc != 0:
        return "model evaluation failed: " + out[-500:]
    bl = vflib.parse_eval_outputs(out)
    return (bl[0] if bl else "")[:4000]


def has_union_member(j):
    """does a JSON document exercise an untagged union / optional member / tagged variant?"""
    if isinstance(j, dict):
        if any(k in j for k in ("default", "primary_key", "unique", "index", "foreign_key", "kind", "fill_with", "on_delete", "description", "comment")):
            return True
        return any(has_union_member(v) for v in j.values())
    if isinstance(j, list):
        return any(has_union_member(v) for v in j)
    return False


def nontrivial(rows):
    """distinct documents: round-trip documents exercising at least one optional / union member or holding
    >= 2 actions; mutated documents (distinct by construction) that are still objects/arrays; revision
    cases whose plan has >= 2 actions."""
    seen = set()
    for r in rows:
        k = r.get("kind", "")
        if k.startswith("rt_") and r.get("text"):
            try:
                j = json.loads(r["text"])
            except Exception:
                continue
            if has_union_member(j) or (isinstance(j, dict) and len(j.get("actions", [])) >= 2):
                seen.add(hashlib.sha1((k + r["text"]).encode()).hexdigest())
        elif k.startswith("mut_") and r.get("text", "")[:1] in "{[":
            seen.add(hashlib.sha1((k + r["text"]).encode()).hexdigest())
        elif k == "rev" and r.get("n_actions", 0) >= 2:
            seen.add(hashlib.sha1(json.dumps([r.get("models"), r.get("history")], sort_keys=True).encode()).hexdigest())
    return len(seen)


def distribution(rows):
    import collections
    kinds, tags, labels, acts = collections.Counter(), collections.Counter(), collections.Counter(), collections.Counter()
    accepted = 0
    for r in rows:
        kinds[r.get("kind", "?")] += 1
        tags[r.get("tag", "?").split(":")[0]] += 1
        for l in r.get("labels", []):
            labels[l] += 1
        if r.get("serde_ok"):
            accepted += 1
        if r.get("kind") == "rt_plan" and r.get("text"):
            try:
                for a in json.loads(r["text"]).get("actions", []):
                    acts[a.get("type", "?")] += 1
            except Exception:
                pass
    return {"case_kinds": dict(kinds), "streams": dict(tags), "mutation_ops": dict(labels), "mutants_accepted_by_serde": accepted,
            "action_kinds_in_round_trips": dict(acts)}


def input_of(r):
    k = r.get("kind", "")
    if k == "rev":
        return {"kind": k, "models_now": r.get("models"), "history": r.get("history"), "plan": r.get("plan"), "written": r.get("written"),
                "supplied_fill_with": r.get("supplied_fill_with"),
                "how_to_replay": "write models_now to models/*.json and history to migrations/, run `vespertide revision -m x` then `vespertide diff`; or ./vf replay C12 <this file>"}
    return {"kind": k, "text": r.get("text"), "file": r.get("file"), "yaml": r.get("yaml"), "labels": r.get("labels"), "tag": r.get("tag")}
