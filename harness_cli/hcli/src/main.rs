//! hcli: helper of the K-cli / K-tree correspondences (layer `cli`, properties C13 and C20).
//!
//!   hcli gen --seed S --count N --steps K [--profile engine|loader]
//!       JSON lines on stdout, one model-set evolution per line (from the shared generator):
//!       {"id":i,"steps":[[{"name":..,"json":<TableDef>,"yaml":"<text>"},..],..]}
//!   hcli parse [--models F..] [--migrations F..]
//!       one JSON line per file: the file parsed with the same serde calls the loader uses
//!       (extension decides json / yaml), printed as a Gallina term of VV.M1.Schema;
//!       then one line {"kind":"missing",..}: what find_missing_fill_with reports for the next plan,
//!       so that the driver can pass --fill-with instead of answering prompts.
//!   hcli render PROJECT_DIR
//!       one JSON object: every stored migration rendered the way vespertide-macro builds the runtime
//!       (macro loader, with_prefix, build_plan_queries against the baseline accumulated BEFORE the migration,
//!       .build(backend) for the three backends, then the baseline advanced with apply_action), with that
//!       baseline as a Gallina term; and the pending plan the way `sql` should show it (what `diff` plans,
//!       prefixed, rendered against the prefixed baseline).
//!   hcli literal SRC_PROJECT DST_PROJECT
//!       C14 at the CLI level: writes the literally renamed project (every table name, foreign-key target and inline
//!       foreign_key of the models and of the stored migrations prefixed by hand with the configured prefix; the
//!       configuration's prefix emptied) as JSON files; ids, comments, versions and timestamps are kept.
use std::path::Path;

use serde_json::{Value, json};
use vcommon::gallina::G;
use vcommon::gener::{self, Profile};
use vcommon::rng::Rng;
use vespertide_core::{MigrationPlan, TableDef};
use vespertide_planner::{find_missing_fill_with, plan_next_migration, schema_from_plans};

fn arg(args: &[String], k: &str, d: &str) -> String {
    args.iter()
        .position(|a| a == k)
        .and_then(|i| args.get(i + 1).cloned())
        .unwrap_or_else(|| d.to_string())
}

fn ext_of(p: &str) -> Option<String> {
    Path::new(p).extension().and_then(|s| s.to_str()).map(|s| s.to_string())
}

fn parse_table(path: &str) -> Result<TableDef, String> {
    let content = std::fs::read_to_string(path).map_err(|e| e.to_string())?;
    if ext_of(path).as_deref() == Some("json") {
        serde_json::from_str(&content).map_err(|e| e.to_string())
    } else {
        serde_yaml::from_str(&content).map_err(|e| e.to_string())
    }
}

fn parse_plan(path: &str) -> Result<MigrationPlan, String> {
    let content = std::fs::read_to_string(path).map_err(|e| e.to_string())?;
    if ext_of(path).as_deref() == Some("json") {
        serde_json::from_str(&content).map_err(|e| e.to_string())
    } else {
        serde_yaml::from_str(&content).map_err(|e| e.to_string())
    }
}

fn cmd_gen(args: &[String]) {
    let seed: u64 = arg(args, "--seed", "1").parse().unwrap_or(1);
    let count: usize = arg(args, "--count", "10").parse().unwrap_or(10);
    let steps: usize = arg(args, "--steps", "3").parse().unwrap_or(3);
    let prof = arg(args, "--profile", "mixed");
    let mut rng = Rng::new(seed ^ 0xC13C20);
    let mut rejected = 0usize;
    for i in 0..count {
        let profile = match prof.as_str() {
            "engine" => Profile::Engine,
            "loader" => Profile::Loader,
            _ => {
                if i % 3 == 2 {
                    Profile::Loader
                } else {
                    Profile::Engine
                }
            }
        };
        let evo = gener::gen_evolution(&mut rng, steps, profile, &mut rejected);
        let steps_json: Vec<Value> = evo
            .iter()
            .map(|models| {
                Value::Array(
                    models
                        .iter()
                        .map(|t| {
                            json!({
                                "name": t.name,
                                "json": serde_json::to_value(t).unwrap(),
                                "yaml": serde_yaml::to_string(t).unwrap(),
                            })
                        })
                        .collect(),
                )
            })
            .collect();
        println!("{}", json!({"id": i, "steps": steps_json}));
    }
}

fn cmd_parse(args: &[String]) {
    let mut mode = "";
    let mut models: Vec<TableDef> = Vec::new();
    let mut plans: Vec<MigrationPlan> = Vec::new();
    let mut all_ok = true;
    for a in args {
        match a.as_str() {
            "--models" => mode = "model",
            "--migrations" => mode = "migration",
            f => {
                if mode == "model" {
                    match parse_table(f) {
                        Ok(t) => {
                            println!("{}", json!({"kind": "model", "file": f, "ok": true, "g": t.gs(), "name": t.name}));
                            models.push(t);
                        }
                        Err(e) => {
                            all_ok = false;
                            println!("{}", json!({"kind": "model", "file": f, "ok": false, "error": e}));
                        }
                    }
                } else if mode == "migration" {
                    match parse_plan(f) {
                        Ok(p) => {
                            println!(
                                "{}",
                                json!({"kind": "migration", "file": f, "ok": true, "g": p.gs(), "version": p.version,
                                       "id": p.id, "created_at": p.created_at, "comment": p.comment, "n_actions": p.actions.len()})
                            );
                            plans.push(p);
                        }
                        Err(e) => {
                            all_ok = false;
                            println!("{}", json!({"kind": "migration", "file": f, "ok": false, "error": e}));
                        }
                    }
                }
            }
        }
    }
    // what the next revision would have to be told (planner's own answer)
    let mut items: Vec<Value> = Vec::new();
    let mut planned = false;
    // is the explicit refusal "non-nullable foreign key column" due? (harness/common/src/fill.rs: keyed by (table, column))
    let mut fk_refusal_due = false;
    if all_ok {
        plans.sort_by_key(|p| p.version);
        if let (Ok(plan), Ok(baseline)) = (plan_next_migration(&models, &plans), schema_from_plans(&plans)) {
            planned = true;
            fk_refusal_due = vcommon::fill::refuses(&plan);
            for m in find_missing_fill_with(&plan, &baseline) {
                items.push(json!({"table": m.table, "column": m.column, "default": m.default_value,
                                  "enum": m.enum_values, "action": m.action_type}));
            }
        }
    }
    println!("{}", json!({"kind": "missing", "planned": planned, "items": items, "fk_refusal_due": fk_refusal_due}));
}

fn build_all(qs: &[vespertide_query::BuiltQuery], b: vespertide_query::DatabaseBackend) -> Value {
    // sea-query panics on types a backend does not have (e.g. Interval on SQLite): reported, not propagated
    match std::panic::catch_unwind(std::panic::AssertUnwindSafe(|| qs.iter().map(|q| q.build(b)).collect::<Vec<String>>())) {
        Ok(v) => json!(v),
        Err(_) => Value::Null,
    }
}

fn render_plan(plan: &MigrationPlan, baseline: &[TableDef]) -> Value {
    use vespertide_query::{DatabaseBackend, build_plan_queries};
    let r = std::panic::catch_unwind(std::panic::AssertUnwindSafe(|| build_plan_queries(plan, baseline)));
    match r {
        Ok(Ok(pqs)) => Value::Array(
            pqs.iter()
                .map(|pq| {
                    json!({"display": pq.action.to_string(),
                           "postgres": build_all(&pq.postgres, DatabaseBackend::Postgres),
                           "mysql": build_all(&pq.mysql, DatabaseBackend::MySql),
                           "sqlite": build_all(&pq.sqlite, DatabaseBackend::Sqlite)})
                })
                .collect(),
        ),
        Ok(Err(e)) => json!({"error": e.to_string()}),
        Err(_) => json!({"error": "panic"}),
    }
}

fn cmd_render(args: &[String]) {
    use vespertide_planner::apply_action;
    std::panic::set_hook(Box::new(|_| {}));
    let root = std::fs::canonicalize(&args[0]).expect("project dir");
    std::env::set_current_dir(&root).expect("chdir");
    let config = match vespertide_loader::load_config() {
        Ok(c) => c,
        Err(e) => {
            println!("{}", json!({"error": format!("config: {}", e)}));
            return;
        }
    };
    let prefix = config.prefix().to_string();
    // --- the runtime's view of the stored history (vespertide-macro/src/lib.rs:56-80, 385-397)
    let mut log: Vec<Value> = Vec::new();
    match vespertide_loader::load_migrations_from_dir(Some(root.clone())) {
        Ok(migrations) => {
            let mut baseline: Vec<TableDef> = Vec::new();
            for m in &migrations {
                let pm = m.clone().with_prefix(&prefix);
                let baseline_g = baseline.gs();
                let actions = render_plan(&pm, &baseline);
                for a in &pm.actions {
                    let _ = apply_action(&mut baseline, a);
                }
                log.push(json!({"version": pm.version, "baseline_g": baseline_g, "actions": actions}));
            }
        }
        Err(e) => {
            println!("{}", json!({"error": format!("migrations: {}", e)}));
            return;
        }
    }
    // --- the pending plan as `sql` should show it
    let sql = (|| -> Result<Value, String> {
        let models = vespertide_loader::load_models(&config).map_err(|e| format!("models: {}", e))?;
        let plans = vespertide_loader::load_migrations(&config).map_err(|e| format!("migrations: {}", e))?;
        let prefixed: Vec<MigrationPlan> = plans.iter().cloned().map(|p| p.with_prefix(&prefix)).collect();
        let baseline = schema_from_plans(&prefixed).map_err(|e| format!("baseline: {}", e))?;
        let plan = plan_next_migration(&models, &plans).map_err(|e| format!("planning: {}", e))?.with_prefix(&prefix);
        if plan.actions.is_empty() {
            return Ok(json!({"none": true}));
        }
        Ok(json!({"version": plan.version, "baseline_g": baseline.gs(), "actions": render_plan(&plan, &baseline)}))
    })();
    let sql = match sql {
        Ok(v) => v,
        Err(e) => json!({"error": e}),
    };
    println!("{}", json!({"log": log, "sql": sql}));
}

fn walk_files(dir: &Path, recursive: bool, out: &mut Vec<std::path::PathBuf>) {
    if let Ok(rd) = std::fs::read_dir(dir) {
        for e in rd.flatten() {
            let p = e.path();
            if p.is_dir() {
                if recursive {
                    walk_files(&p, recursive, out);
                }
            } else if matches!(p.extension().and_then(|s| s.to_str()), Some("json") | Some("yaml") | Some("yml")) {
                out.push(p);
            }
        }
    }
}

fn cmd_literal(args: &[String]) {
    use vcommon::gener::{literal_action, literal_table};
    let src = std::fs::canonicalize(&args[0]).expect("source project");
    let dst = std::path::PathBuf::from(&args[1]);
    let config = match vespertide_loader::load_config_from_path(src.join("vespertide.json")) {
        Ok(c) => c,
        Err(e) => {
            println!("{}", json!({"ok": false, "error": format!("config: {}", e)}));
            return;
        }
    };
    let prefix = config.prefix().to_string();
    let mut cfg = serde_json::to_value(&config).unwrap();
    cfg["prefix"] = json!("");
    cfg["modelsDir"] = json!("models");
    cfg["migrationsDir"] = json!("migrations");
    let _ = std::fs::remove_dir_all(&dst);
    std::fs::create_dir_all(dst.join("models")).unwrap();
    std::fs::create_dir_all(dst.join("migrations")).unwrap();
    std::fs::write(dst.join("vespertide.json"), serde_json::to_string_pretty(&cfg).unwrap()).unwrap();
    let mut files = Vec::new();
    walk_files(&src.join(config.models_dir()), true, &mut files);
    for (i, f) in files.iter().enumerate() {
        match parse_table(f.to_str().unwrap()) {
            Ok(t) => {
                let lt = literal_table(&prefix, &t);
                std::fs::write(dst.join("models").join(format!("m{:03}.json", i)), serde_json::to_string_pretty(&lt).unwrap()).unwrap();
            }
            Err(e) => {
                println!("{}", json!({"ok": false, "error": format!("model {}: {}", f.display(), e)}));
                return;
            }
        }
    }
    let mut files = Vec::new();
    walk_files(&src.join(config.migrations_dir()), false, &mut files);
    for (i, f) in files.iter().enumerate() {
        match parse_plan(f.to_str().unwrap()) {
            Ok(mut pl) => {
                pl.actions = pl.actions.iter().map(|a| literal_action(&prefix, a)).collect();
                std::fs::write(dst.join("migrations").join(format!("g{:03}.json", i)), serde_json::to_string_pretty(&pl).unwrap()).unwrap();
            }
            Err(e) => {
                println!("{}", json!({"ok": false, "error": format!("migration {}: {}", f.display(), e)}));
                return;
            }
        }
    }
    println!("{}", json!({"ok": true, "prefix": prefix}));
}

fn main() {
    let args: Vec<String> = std::env::args().skip(1).collect();
    match args.first().map(|s| s.as_str()) {
        Some("gen") => cmd_gen(&args[1..]),
        Some("parse") => cmd_parse(&args[1..]),
        Some("render") => cmd_render(&args[1..]),
        Some("literal") => cmd_literal(&args[1..]),
        _ => {
            eprintln!("usage: hcli gen|parse|render|literal ...");
            std::process::exit(2);
        }
    }
}
