//! hcli: helper of the K-cli / K-tree correspondences (layer `cli`, properties C13 and C20).
//!
//!   hcli gen --seed S --count N --steps K [--profile engine|loader]
//!       JSON lines on stdout, one model-set evolution per line (from the shared generator):
//!       {"id":i,"steps":[[{"name":..,"json":<TableDef>,"yaml":"<text>"},..],..]}
//!   hcli parse [--models F..] [--migrations F..]
//!       one JSON line per file: the file parsed with the same serde calls the loader uses
//!       (extension decides json / yaml), printed as a Gallina term of VV.M1.Schema;
//!       then one line {"kind":"missing",..}: what find_missing_fill_with reports for the next plan,
//!       so that the driver can pass --fill-with instead of answering prompts.
use std::path::Path;

use serde_json::{Value, json};
use vcommon::gallina::G;
use vcommon::gener::{self, Profile};
use vcommon::rng::Rng;
use vespertide_core::{MigrationPlan, TableDef};
use vespertide_planner::{find_missing_fill_with, plan_next_migration, schema_from_plans};

fn arg(args: &[String], k: &str, d: &str) -> String {
    args.iter()
        .position(|a| a == k)
        .and_then(|i| args.get(i + 1).cloned())
        .unwrap_or_else(|| d.to_string())
}

fn ext_of(p: &str) -> Option<String> {
    Path::new(p).extension().and_then(|s| s.to_str()).map(|s| s.to_string())
}

fn parse_table(path: &str) -> Result<TableDef, String> {
    let content = std::fs::read_to_string(path).map_err(|e| e.to_string())?;
    if ext_of(path).as_deref() == Some("json") {
        serde_json::from_str(&content).map_err(|e| e.to_string())
    } else {
        serde_yaml::from_str(&content).map_err(|e| e.to_string())
    }
}

fn parse_plan(path: &str) -> Result<MigrationPlan, String> {
    let content = std::fs::read_to_string(path).map_err(|e| e.to_string())?;
    if ext_of(path).as_deref() == Some("json") {
        serde_json::from_str(&content).map_err(|e| e.to_string())
    } else {
        serde_yaml::from_str(&content).map_err(|e| e.to_string())
    }
}

fn cmd_gen(args: &[String]) {
    let seed: u64 = arg(args, "--seed", "1").parse().unwrap_or(1);
    let count: usize = arg(args, "--count", "10").parse().unwrap_or(10);
    let steps: usize = arg(args, "--steps", "3").parse().unwrap_or(3);
    let prof = arg(args, "--profile", "mixed");
    let mut rng = Rng::new(seed ^ 0xC13C20);
    let mut rejected = 0usize;
    for i in 0..count {
        let profile = match prof.as_str() {
            "engine" => Profile::Engine,
            "loader" => Profile::Loader,
            _ => {
                if i % 3 == 2 {
                    Profile::Loader
                } else {
                    Profile::Engine
                }
            }
        };
        let evo = gener::gen_evolution(&mut rng, steps, profile, &mut rejected);
        let steps_json: Vec<Value> = evo
            .iter()
            .map(|models| {
                Value::Array(
                    models
                        .iter()
                        .map(|t| {
                            json!({
                                "name": t.name,
                                "json": serde_json::to_value(t).unwrap(),
                                "yaml": serde_yaml::to_string(t).unwrap(),
                            })
                        })
                        .collect(),
                )
            })
            .collect();
        println!("{}", json!({"id": i, "steps": steps_json}));
    }
}

fn cmd_parse(args: &[String]) {
    let mut mode = "";
    let mut models: Vec<TableDef> = Vec::new();
    let mut plans: Vec<MigrationPlan> = Vec::new();
    let mut all_ok = true;
    for a in args {
        match a.as_str() {
            "--models" => mode = "model",
            "--migrations" => mode = "migration",
            f => {
                if mode == "model" {
                    match parse_table(f) {
                        Ok(t) => {
                            println!("{}", json!({"kind": "model", "file": f, "ok": true, "g": t.gs(), "name": t.name}));
                            models.push(t);
                        }
                        Err(e) => {
                            all_ok = false;
                            println!("{}", json!({"kind": "model", "file": f, "ok": false, "error": e}));
                        }
                    }
                } else if mode == "migration" {
                    match parse_plan(f) {
                        Ok(p) => {
                            println!(
                                "{}",
                                json!({"kind": "migration", "file": f, "ok": true, "g": p.gs(), "version": p.version,
                                       "id": p.id, "created_at": p.created_at, "comment": p.comment, "n_actions": p.actions.len()})
                            );
                            plans.push(p);
                        }
                        Err(e) => {
                            all_ok = false;
                            println!("{}", json!({"kind": "migration", "file": f, "ok": false, "error": e}));
                        }
                    }
                }
            }
        }
    }
    // what the next revision would have to be told (planner's own answer)
    let mut items: Vec<Value> = Vec::new();
    let mut planned = false;
    if all_ok {
        plans.sort_by_key(|p| p.version);
        if let (Ok(plan), Ok(baseline)) = (plan_next_migration(&models, &plans), schema_from_plans(&plans)) {
            planned = true;
            for m in find_missing_fill_with(&plan, &baseline) {
                items.push(json!({"table": m.table, "column": m.column, "default": m.default_value,
                                  "enum": m.enum_values, "action": m.action_type}));
            }
        }
    }
    println!("{}", json!({"kind": "missing", "planned": planned, "items": items}));
}

fn main() {
    let args: Vec<String> = std::env::args().skip(1).collect();
    match args.first().map(|s| s.as_str()) {
        Some("gen") => cmd_gen(&args[1..]),
        Some("parse") => cmd_parse(&args[1..]),
        _ => {
            eprintln!("usage: hcli gen|parse ...");
            std::process::exit(2);
        }
    }
}
