//! hpg: histories for the PostgreSQL layer (C03).  For every migration of every history it records
//!   * the replayed baseline before the migration (real `schema_from_plans`), as a Gallina term and as JSON,
//!   * the plan's actions (Gallina + JSON),
//!   * the PostgreSQL text of every statement the implementation emits, per action
//!     (`build_plan_queries(..).postgres[*].build(Postgres)`, empty strings dropped the way every consumer drops them),
//!   * the replayed baseline after the migration.
//! The Python driver parses the SQL (tools/pg_sqlparse.py) and writes the Coq shards.
//!
//!   hpg gen --seed S --histories N --steps K --out DIR [--corpus DIR]
use std::collections::BTreeSet;
use std::fmt::Write as _;
use std::panic::{AssertUnwindSafe, catch_unwind};
use std::path::PathBuf;

use serde_json::{Value, json};
use vcommon::fill::revision_fill;
use vcommon::gallina::G;
use vcommon::gener::{self, Profile};
use vcommon::rng::Rng;
use vespertide_core::schema::primary_key::PrimaryKeySyntax;
use vespertide_core::{
    ColumnDef, ColumnType, ComplexColumnType, EnumValues, MigrationAction, MigrationPlan, NumValue,
    SimpleColumnType, StrOrBoolOrArray, TableConstraint, TableDef,
};
use vespertide_planner::{plan_next_migration, schema_from_plans, validate_migration_plan};
use vespertide_query::{DatabaseBackend, build_plan_queries};

fn arg(args: &[String], k: &str, d: &str) -> String {
    args.iter()
        .position(|a| a == k)
        .and_then(|i| args.get(i + 1).cloned())
        .unwrap_or_else(|| d.to_string())
}

fn kind_of(a: &MigrationAction) -> &'static str {
    use MigrationAction::*;
    match a {
        CreateTable { .. } => "CreateTable",
        DeleteTable { .. } => "DeleteTable",
        AddColumn { .. } => "AddColumn",
        RenameColumn { .. } => "RenameColumn",
        DeleteColumn { .. } => "DeleteColumn",
        ModifyColumnType { .. } => "ModifyColumnType",
        ModifyColumnNullable { .. } => "ModifyColumnNullable",
        ModifyColumnDefault { .. } => "ModifyColumnDefault",
        ModifyColumnComment { .. } => "ModifyColumnComment",
        AddConstraint { .. } => "AddConstraint",
        RemoveConstraint { .. } => "RemoveConstraint",
        RenameTable { .. } => "RenameTable",
        RawSql { .. } => "RawSql",
    }
}

fn is_enum(t: &ColumnType) -> bool {
    matches!(t, ColumnType::Complex(ComplexColumnType::Enum { .. }))
}

/// One migration = one case.  `history` is what has been applied before `plan`.
fn emit_mig(rows: &mut Vec<Value>, history: &[MigrationPlan], plan: &MigrationPlan, tag: &str, hist: usize, k: usize) {
    let r = catch_unwind(AssertUnwindSafe(|| {
        let baseline = schema_from_plans(history).unwrap_or_default();
        let mut h2 = history.to_vec();
        h2.push(plan.clone());
        let after = schema_from_plans(&h2);
        let after_g = match &after {
            Ok(s) => format!("(Some {})", s.gs()),
            Err(_) => "None".to_string(),
        };
        // build_plan_queries builds all three backends; a panic of another backend's builder (e.g. sea-query's
        // SQLite "precision cannot be larger than 16") takes the PostgreSQL statements down with it.  That is
        // recorded (`other_backend_panic`), and the PostgreSQL statements are then obtained from the same
        // per-action entry point with the same evolving-schema loop (builder.rs:22-90).
        let q = catch_unwind(AssertUnwindSafe(|| build_plan_queries(plan, &baseline)));
        let mut other_backend_panic = false;
        let per_action: Result<Vec<Vec<String>>, String> = match q {
            Ok(Ok(pqs)) => Ok(pqs
                .iter()
                .map(|pq| pq.postgres.iter().map(|b| b.build(DatabaseBackend::Postgres)).collect())
                .collect()),
            Ok(Err(e)) => Err(e.to_string()),
            Err(_) => {
                other_backend_panic = true;
                let mut evolving = baseline.clone();
                let mut out: Result<Vec<Vec<String>>, String> = Ok(vec![]);
                for a in &plan.actions {
                    match vespertide_query::sql::build_action_queries_with_pending(&DatabaseBackend::Postgres, a, &evolving, &[]) {
                        Ok(qs) => {
                            if let Ok(v) = out.as_mut() {
                                v.push(qs.iter().map(|b| b.build(DatabaseBackend::Postgres)).collect());
                            }
                        }
                        Err(e) => {
                            out = Err(e.to_string());
                            break;
                        }
                    }
                    let _ = vespertide_planner::apply_action(&mut evolving, a);
                }
                out
            }
        };
        let sql: Value = match &per_action {
            Ok(v) => Value::Array(
                v.iter()
                    .map(|per| Value::Array(per.iter().filter(|s| !s.trim().is_empty()).cloned().map(Value::String).collect()))
                    .collect(),
            ),
            Err(e) => json!({"error": e}),
        };
        let kinds: BTreeSet<&str> = plan.actions.iter().map(kind_of).collect();
        let enumish = baseline.iter().any(|t| t.columns.iter().any(|c| is_enum(&c.r#type)))
            || plan.actions.iter().any(|a| match a {
                MigrationAction::CreateTable { columns, .. } => columns.iter().any(|c| is_enum(&c.r#type)),
                MigrationAction::AddColumn { column, .. } => is_enum(&column.r#type),
                MigrationAction::ModifyColumnType { new_type, .. } => is_enum(new_type),
                _ => false,
            });
        json!({
            "tag": tag, "hist": hist, "k": k,
            "baseline_g": baseline.gs(), "actions_g": plan.actions.gs(), "after_g": after_g,
            "sql": sql, "other_backend_panic": other_backend_panic,
            "baseline": baseline, "plan": plan, "after_ok": after.is_ok(),
            "history": history,
            "n_actions": plan.actions.len(), "action_kinds": kinds, "n_tables": baseline.len(), "enum": enumish,
        })
    }));
    match r {
        Ok(v) => rows.push(v),
        Err(_) => rows.push(json!({"tag": tag, "hist": hist, "k": k, "panic": true, "plan": plan, "history": history})),
    }
}

fn col(name: &str, t: ColumnType, nullable: bool) -> ColumnDef {
    gener::col(name, t, nullable)
}

fn str_enum(name: &str, labels: &[&str]) -> ColumnType {
    ColumnType::Complex(ComplexColumnType::Enum {
        name: name.to_string(),
        values: EnumValues::String(labels.iter().map(|s| s.to_string()).collect()),
    })
}
fn int_enum(name: &str, labels: &[&str]) -> ColumnType {
    ColumnType::Complex(ComplexColumnType::Enum {
        name: name.to_string(),
        values: EnumValues::Integer(labels.iter().enumerate().map(|(i, s)| NumValue { name: s.to_string(), value: i as i32 }).collect()),
    })
}

const LABELS: &[&str] = &["active", "inactive", "pending", "done", "a_b", "b"];
const ENUM_NAMES: &[&str] = &["status", "kind", "level", "state"];

fn rand_labels(rng: &mut Rng) -> Vec<&'static str> {
    let mut p: Vec<&str> = LABELS.to_vec();
    rng.shuffle(&mut p);
    let n = rng.range(1, 4);
    p.into_iter().take(n).collect()
}

/// Model sets biased toward enum columns: string / integer enums, one enum name shared by two columns of a table.
fn gen_enum_models(rng: &mut Rng) -> Vec<TableDef> {
    for _ in 0..30 {
        let mut m = gener::gen_models(rng, Profile::Engine);
        if m.is_empty() {
            continue;
        }
        for t in m.iter_mut() {
            let n = rng.range(1, 3);
            let mut shared: Option<ColumnType> = None;
            for i in 0..n {
                let cn = ["st", "st2", "st3"][i];
                if t.columns.iter().any(|c| c.name == cn) {
                    continue;
                }
                let ty = match (&shared, rng.below(3)) {
                    (Some(s), 0) => s.clone(),
                    _ => {
                        let name = rng.pick(ENUM_NAMES);
                        let l = rand_labels(rng);
                        if rng.chance(1, 4) { int_enum(name, &l) } else { str_enum(name, &l) }
                    }
                };
                if shared.is_none() {
                    shared = Some(ty.clone());
                }
                // never two different value lists under one enum name in one table
                let clash = t.columns.iter().any(|c| match (&c.r#type, &ty) {
                    (ColumnType::Complex(ComplexColumnType::Enum { name: a, values: va }), ColumnType::Complex(ComplexColumnType::Enum { name: b, values: vb })) => a == b && va != vb,
                    _ => false,
                });
                if clash {
                    continue;
                }
                let mut c = col(cn, ty.clone(), rng.chance(1, 2));
                c.default = gener::gen_default(rng, &ty, Profile::Engine);
                t.columns.push(c);
            }
        }
        if gener::loader_accepts(&m) && engine_ok(&m) {
            return m;
        }
    }
    vec![]
}

fn gen_plain_models(rng: &mut Rng) -> Vec<TableDef> {
    for _ in 0..30 {
        let m = gener::gen_models(rng, Profile::Engine);
        if !m.is_empty() && engine_ok(&m) {
            return m;
        }
    }
    vec![]
}

/// Enum-directed edit of a model set.
fn enum_edit(rng: &mut Rng, m: &mut Vec<TableDef>) -> &'static str {
    if m.is_empty() {
        return "noop";
    }
    let ti = rng.below(m.len());
    let t = &mut m[ti];
    let enum_cols: Vec<usize> = t.columns.iter().enumerate().filter(|(_, c)| is_enum(&c.r#type)).map(|(i, _)| i).collect();
    match rng.below(9) {
        0 => {
            // add a column that shares the enum of an existing column
            if let Some(&i) = enum_cols.first() {
                let ty = t.columns[i].r#type.clone();
                for cn in ["st4", "st5", "st6"] {
                    if !t.columns.iter().any(|c| c.name == cn) {
                        t.columns.push(col(cn, ty, true));
                        return "add_shared_enum_column";
                    }
                }
            }
            "noop"
        }
        1 => {
            // add a column with a fresh enum
            for cn in ["en1", "en2", "en3"] {
                if !t.columns.iter().any(|c| c.name == cn) {
                    let name = rng.pick(ENUM_NAMES);
                    if t.columns.iter().any(|c| matches!(&c.r#type, ColumnType::Complex(ComplexColumnType::Enum { name: n, .. }) if n == name)) {
                        return "noop";
                    }
                    let l = rand_labels(rng);
                    let ty = if rng.chance(1, 3) { int_enum(name, &l) } else { str_enum(name, &l) };
                    let mut c = col(cn, ty.clone(), rng.chance(2, 3));
                    c.default = gener::gen_default(rng, &ty, Profile::Engine);
                    t.columns.push(c);
                    return "add_enum_column";
                }
            }
            "noop"
        }
        2 | 3 => {
            // change the labels of an enum, on every column that shares it (keeps the model set coherent)
            if enum_cols.is_empty() {
                return "noop";
            }
            let i = *rng.pick(&enum_cols);
            let ColumnType::Complex(ComplexColumnType::Enum { name, values }) = t.columns[i].r#type.clone() else { return "noop" };
            let nv = match values {
                EnumValues::String(mut l) => {
                    match rng.below(3) {
                        0 => l.push(format!("new{}", l.len())),
                        1 if l.len() > 1 => {
                            let k = rng.below(l.len());
                            l.remove(k);
                        }
                        _ => l.insert(0, format!("first{}", l.len())),
                    }
                    EnumValues::String(l)
                }
                EnumValues::Integer(mut l) => {
                    let v = l.iter().map(|x| x.value).max().unwrap_or(0) + 1;
                    l.push(NumValue { name: format!("n{}", v), value: v });
                    EnumValues::Integer(l)
                }
            };
            let all = rng.chance(3, 4);
            for (k, c) in t.columns.iter_mut().enumerate() {
                if let ColumnType::Complex(ComplexColumnType::Enum { name: n, values: v }) = &mut c.r#type {
                    if *n == name && (all || k == i) {
                        *v = nv.clone();
                        if let Some(d) = &c.default {
                            // keep A7: a default must stay one of the labels
                            let s = d.to_sql();
                            let s = s.trim().trim_matches('\'').to_string();
                            if !nv.variant_names().iter().any(|x| *x == s) {
                                c.default = None;
                            }
                        }
                    }
                }
            }
            "enum_labels"
        }
        4 => {
            // rename the enum type of one column (or of all sharing it)
            if enum_cols.is_empty() {
                return "noop";
            }
            let i = *rng.pick(&enum_cols);
            let ColumnType::Complex(ComplexColumnType::Enum { name, .. }) = t.columns[i].r#type.clone() else { return "noop" };
            let nn = format!("{}2", name);
            let all = rng.chance(1, 2);
            for (k, c) in t.columns.iter_mut().enumerate() {
                if let ColumnType::Complex(ComplexColumnType::Enum { name: n, .. }) = &mut c.r#type {
                    if *n == name && (all || k == i) {
                        *n = nn.clone();
                    }
                }
            }
            "enum_rename"
        }
        5 => {
            // string enum <-> integer enum, enum <-> plain type
            if enum_cols.is_empty() {
                return "noop";
            }
            let i = *rng.pick(&enum_cols);
            let ColumnType::Complex(ComplexColumnType::Enum { name, values }) = t.columns[i].r#type.clone() else { return "noop" };
            let names: Vec<String> = values.variant_names().iter().map(|s| s.to_string()).collect();
            let refs: Vec<&str> = names.iter().map(|s| s.as_str()).collect();
            t.columns[i].default = None;
            t.columns[i].r#type = match rng.below(3) {
                0 => ColumnType::Simple(SimpleColumnType::Text),
                _ => {
                    if values.is_integer() { str_enum(&name, &refs) } else { int_enum(&name, &refs) }
                }
            };
            "enum_kind"
        }
        6 | 7 => {
            // drop an enum column
            if enum_cols.is_empty() || t.columns.len() <= 1 {
                return "noop";
            }
            let i = *rng.pick(&enum_cols);
            let cn = t.columns[i].name.clone();
            t.columns.remove(i);
            t.constraints.retain(|c| !c.columns().contains(&cn));
            "drop_enum_column"
        }
        _ => {
            // a plain column becomes an enum
            let plain: Vec<usize> = t.columns.iter().enumerate().filter(|(_, c)| matches!(c.r#type, ColumnType::Simple(SimpleColumnType::Text))).map(|(i, _)| i).collect();
            if plain.is_empty() {
                return "noop";
            }
            let i = *rng.pick(&plain);
            let name = rng.pick(ENUM_NAMES);
            if t.columns.iter().any(|c| matches!(&c.r#type, ColumnType::Complex(ComplexColumnType::Enum { name: n, .. }) if n == name)) {
                return "noop";
            }
            let l = rand_labels(rng);
            t.columns[i].default = None;
            t.columns[i].r#type = str_enum(name, &l);
            "to_enum"
        }
    }
}

/// The sanity assumptions of DESIGN §4.2 that `vcommon::gener` does not guarantee by itself after edits:
/// A2 (primary-key columns are NOT NULL), A3 (enum names of a table distinct case-insensitively), A4 (a CHECK
/// expression mentions only existing columns: generated expressions start with their column), A5 (an
/// auto-increment key column has no other default), A7 (one enum name = one value list inside a table).
fn engine_ok(models: &[TableDef]) -> bool {
    for t in models {
        let Ok(n) = t.normalize() else { return false };
        let mut pk: Vec<String> = vec![];
        let mut auto = false;
        for c in &n.constraints {
            match c {
                TableConstraint::PrimaryKey { columns, auto_increment } => {
                    if pk.is_empty() {
                        pk = columns.clone();
                        auto = *auto_increment;
                    }
                }
                TableConstraint::Check { expr, .. } => {
                    let first: String = expr.chars().take_while(|ch| ch.is_alphanumeric() || *ch == '_').collect();
                    if !n.columns.iter().any(|c| c.name == first) {
                        return false;
                    }
                }
                _ => {}
            }
        }
        for c in &n.columns {
            if pk.contains(&c.name) && (c.nullable || (auto && c.default.is_some())) {
                return false;
            }
        }
        let enums: Vec<(&String, &EnumValues)> = n
            .columns
            .iter()
            .filter_map(|c| match &c.r#type {
                ColumnType::Complex(ComplexColumnType::Enum { name, values }) => Some((name, values)),
                _ => None,
            })
            .collect();
        for (i, (a, va)) in enums.iter().enumerate() {
            for (b, vb) in enums.iter().skip(i + 1) {
                if a.to_lowercase() == b.to_lowercase() && (a != b || va != vb) {
                    return false;
                }
            }
        }
    }
    true
}

/// A1 for hand-written steps: a key that a foreign key references is not removed by hand.
fn key_is_referenced(s: &[TableDef], table: &str, cols: &[String]) -> bool {
    s.iter().any(|t| {
        t.constraints.iter().any(|c| match c {
            // any foreign key to the table counts (after a hand-written rename the baseline's ref_columns are stale)
            TableConstraint::ForeignKey { ref_table, .. } => {
                let _ = cols;
                ref_table == table
            }
            _ => false,
        })
    })
}

fn mkplan(version: u32, actions: Vec<MigrationAction>) -> MigrationPlan {
    MigrationPlan { id: String::new(), comment: None, created_at: None, version, actions }
}

/// A hand-written migration over the current baseline: RenameTable, RenameColumn, explicit
/// Add/RemoveConstraint, RawSql, and short combinations of them.  Only loadable plans whose replay
/// succeeds are kept (checked by the caller).
fn hand_step(rng: &mut Rng, baseline: &[TableDef], version: u32) -> Option<MigrationPlan> {
    if baseline.is_empty() {
        return None;
    }
    let mut s: Vec<TableDef> = baseline.to_vec();
    let mut acts: Vec<MigrationAction> = vec![];
    let n = rng.range(1, 3);
    for _ in 0..n {
        if s.is_empty() {
            break;
        }
        let ti = rng.below(s.len());
        let t = s[ti].clone();
        let a: Option<MigrationAction> = match rng.below(12) {
            0 | 1 => {
                let mut pool: Vec<&str> = gener::TABLE_POOL.iter().copied().filter(|n| *n != "User" && *n != "orderItem").collect();
                pool.push("renamed");
                pool.push("t2");
                rng.shuffle(&mut pool);
                pool.into_iter().find(|n| !s.iter().any(|x| x.name == *n)).map(|to| MigrationAction::RenameTable { from: t.name.clone(), to: to.to_string() })
            }
            2 | 3 => {
                let ci = rng.below(t.columns.len());
                let from = t.columns[ci].name.clone();
                let mut pool: Vec<&str> = gener::COL_POOL.to_vec();
                pool.push("renamed_col");
                rng.shuffle(&mut pool);
                pool.into_iter().find(|n| !t.columns.iter().any(|c| c.name == *n)).map(|to| MigrationAction::RenameColumn { table: t.name.clone(), from, to: to.to_string() })
            }
            4 | 5 => {
                // explicit AddConstraint: index / unique / check
                let names: Vec<String> = t.columns.iter().map(|c| c.name.clone()).collect();
                let k = rng.range(1, names.len().min(2));
                let mut p = names;
                rng.shuffle(&mut p);
                let cols: Vec<String> = p.into_iter().take(k).collect();
                let name = if rng.chance(1, 3) { Some(rng.pick(gener::NAME_POOL).to_string()) } else { None };
                let c = match rng.below(4) {
                    0 => TableConstraint::Unique { name, columns: cols },
                    1 => TableConstraint::Check { name: rng.pick(&["chk_pos", "ck1", "ck2"]).to_string(), expr: format!("{} IS NOT NULL", cols[0]) },
                    _ => TableConstraint::Index { name, columns: cols },
                };
                let name_taken = matches!(&c, TableConstraint::Check { name, .. } if t.constraints.iter().any(|k| matches!(k, TableConstraint::Check { name: n, .. } if n == name)));
                if t.constraints.contains(&c) || name_taken { None } else { Some(MigrationAction::AddConstraint { table: t.name.clone(), constraint: c }) }
            }
            6 | 7 | 8 => {
                // explicit RemoveConstraint of something the baseline holds (occasionally followed by adding it back)
                if t.constraints.is_empty() {
                    None
                } else {
                    let c = rng.pick(&t.constraints).clone();
                    if matches!(c, TableConstraint::PrimaryKey { .. } | TableConstraint::Unique { .. }) && key_is_referenced(&s, &t.name, c.columns()) {
                        None
                    } else if matches!(c, TableConstraint::PrimaryKey { .. }) {
                        // a table must keep a primary key: remove + add back in one plan
                        acts.push(MigrationAction::RemoveConstraint { table: t.name.clone(), constraint: c.clone() });
                        let _ = vespertide_planner::apply_action(&mut s, acts.last().unwrap());
                        Some(MigrationAction::AddConstraint { table: t.name.clone(), constraint: c })
                    } else {
                        Some(MigrationAction::RemoveConstraint { table: t.name.clone(), constraint: c })
                    }
                }
            }
            9 => Some(MigrationAction::RawSql { sql: rng.pick(&["SELECT 1", "CREATE EXTENSION IF NOT EXISTS pgcrypto", "ANALYZE"]).to_string() }),
            10 => {
                // explicit foreign key to another table's single-column primary key over a fresh nullable column
                if s.len() < 2 {
                    None
                } else {
                    let oi = (ti + 1 + rng.below(s.len() - 1)) % s.len();
                    let target = s[oi].clone();
                    let tpk = gener::pk_columns(&target);
                    let cname = format!("{}_ref", target.name);
                    if tpk.len() != 1 || t.columns.iter().any(|c| c.name == cname) {
                        None
                    } else {
                        let rty = target.columns.iter().find(|c| c.name == tpk[0]).map(|c| c.r#type.clone()).unwrap_or(ColumnType::Simple(SimpleColumnType::Integer));
                        acts.push(MigrationAction::AddColumn { table: t.name.clone(), column: Box::new(col(&cname, rty, true)), fill_with: None });
                        let _ = vespertide_planner::apply_action(&mut s, acts.last().unwrap());
                        Some(MigrationAction::AddConstraint {
                            table: t.name.clone(),
                            constraint: TableConstraint::ForeignKey {
                                name: if rng.chance(1, 3) { Some("k1".into()) } else { None },
                                columns: vec![cname],
                                ref_table: target.name.clone(),
                                ref_columns: tpk,
                                on_delete: if rng.chance(1, 2) { Some(rng.pick(&gener::ref_actions()).clone()) } else { None },
                                on_update: None,
                            },
                        })
                    }
                }
            }
            _ => {
                // delete a column by hand (enum columns preferred)
                let cands: Vec<&ColumnDef> = t.columns.iter().filter(|c| is_enum(&c.r#type)).collect();
                let pkc = gener::pk_columns(&t);
                let c = if !cands.is_empty() { Some((*rng.pick(&cands)).clone()) } else { t.columns.iter().find(|c| !pkc.contains(&c.name)).cloned() };
                c.filter(|c| !pkc.contains(&c.name)).map(|c| MigrationAction::DeleteColumn { table: t.name.clone(), column: c.name })
            }
        };
        if let Some(a) = a {
            if vespertide_planner::apply_action(&mut s, &a).is_err() {
                continue;
            }
            acts.push(a);
        }
    }
    if acts.is_empty() { None } else { Some(mkplan(version, acts)) }
}

/// Deterministic histories about the primary key of tables whose names (and columns) carry upper-case letters:
/// PostgreSQL keeps the spelling of a quoted table name in the implicit "<table>_pkey".  Every run emits, for
/// User / orderItem / UserAccount: the planner's key replacement (the key's column set changes: RemoveConstraint
/// PrimaryKey + AddConstraint PrimaryKey), a second replacement, and a hand-written removal with the key added back.
fn mixed_case_key_histories(rows: &mut Vec<Value>, hist: &mut usize) {
    let int = || ColumnType::Simple(SimpleColumnType::Integer);
    for name in ["User", "orderItem", "UserAccount"] {
        let table = |pk: &[&str]| TableDef {
            name: name.to_string(),
            description: None,
            columns: vec![col("id", int(), false), col("tenantId", int(), false), col("displayName", ColumnType::Simple(SimpleColumnType::Text), true)],
            constraints: vec![TableConstraint::PrimaryKey { auto_increment: false, columns: pk.iter().map(|c| c.to_string()).collect() }],
        };
        let mut h: Vec<MigrationPlan> = vec![];
        let mut k = 0usize;
        for pk in [&["id"][..], &["id", "tenantId"][..], &["tenantId"][..]] {
            let m = vec![table(pk)];
            let Ok(p) = plan_next_migration(&m, &h) else { continue };
            if p.actions.is_empty() {
                continue;
            }
            let baseline = schema_from_plans(&h).unwrap_or_default();
            let Some(f) = revision_fill(&p, &baseline) else { continue };
            let f = MigrationPlan { version: p.version, ..f };
            emit_mig(rows, &h, &f, "mixedcase:plan", *hist, k);
            k += 1;
            h.push(f);
        }
        let baseline = schema_from_plans(&h).unwrap_or_default();
        if let Some(pkc) = baseline.iter().find(|t| t.name == name).and_then(|t| t.constraints.iter().find(|c| matches!(c, TableConstraint::PrimaryKey { .. })).cloned()) {
            let p = mkplan(h.len() as u32 + 1, vec![
                MigrationAction::RemoveConstraint { table: name.to_string(), constraint: pkc.clone() },
                MigrationAction::AddConstraint { table: name.to_string(), constraint: pkc },
            ]);
            if validate_migration_plan(&p).is_ok() {
                emit_mig(rows, &h, &p, "mixedcase:hand", *hist, k);
            }
        }
        *hist += 1;
    }
}

struct Stats {
    rejected_edits: usize,
    refused_fill: usize,
    hand_rejected: usize,
}

/// Grow one history: planner steps over edited model sets, interleaved with hand-written steps.
fn grow(rng: &mut Rng, rows: &mut Vec<Value>, hist: usize, steps: usize, stream: &str, st: &mut Stats) {
    let enumy = stream == "enum";
    let hand = stream != "grown";
    let mut models = if enumy { gen_enum_models(rng) } else { gen_plain_models(rng) };
    let mut history: Vec<MigrationPlan> = vec![];
    let mut k = 0usize;
    for step in 0..steps {
        let do_hand = hand && step > 0 && rng.chance(2, 5);
        if do_hand {
            let baseline = schema_from_plans(&history).unwrap_or_default();
            let mut ok = false;
            for _ in 0..6 {
                let Some(p) = hand_step(rng, &baseline, history.len() as u32 + 1) else { continue };
                let mut h2 = history.clone();
                h2.push(p.clone());
                if validate_migration_plan(&p).is_ok() && schema_from_plans(&h2).map(|b| engine_ok(&b)).unwrap_or(false) {
                    emit_mig(rows, &history, &p, &format!("{}:hand", stream), hist, k);
                    k += 1;
                    history = h2;
                    ok = true;
                    break;
                }
                st.hand_rejected += 1;
            }
            if ok {
                // the models follow the database: continue the evolution from the new baseline
                models = schema_from_plans(&history).unwrap_or_default();
                continue;
            }
        }
        if step > 0 {
            let mut tries = 0;
            loop {
                tries += 1;
                let mut cand = models.clone();
                for _ in 0..rng.range(1, 5) {
                    if enumy && rng.chance(3, 5) {
                        enum_edit(rng, &mut cand);
                    } else {
                        gener::edit_models(rng, &mut cand, Profile::Engine);
                    }
                }
                if gener::loader_accepts(&cand) && engine_ok(&cand) {
                    models = cand;
                    break;
                }
                st.rejected_edits += 1;
                if tries > 30 {
                    break;
                }
            }
        }
        let Ok(p) = plan_next_migration(&models, &history) else { continue };
        if p.actions.is_empty() {
            continue;
        }
        let baseline = schema_from_plans(&history).unwrap_or_default();
        let Some(f) = revision_fill(&p, &baseline) else {
            st.refused_fill += 1;
            // `revision` refuses; the models stay ahead of the history and the next step re-plans
            continue;
        };
        let f = MigrationPlan { version: p.version, ..f };
        emit_mig(rows, &history, &f, &format!("{}:plan", stream), hist, k);
        k += 1;
        history.push(f);
    }
}

fn main() {
    let args: Vec<String> = std::env::args().collect();
    if args.get(1).map(|s| s.as_str()) != Some("gen") {
        eprintln!("usage: hpg gen --seed S --histories N --steps K --out DIR [--corpus DIR]");
        std::process::exit(2);
    }
    let seed: u64 = arg(&args, "--seed", "1").parse().unwrap_or(1);
    let n: usize = arg(&args, "--histories", "60").parse().unwrap();
    let steps: usize = arg(&args, "--steps", "4").parse().unwrap();
    let outdir = PathBuf::from(arg(&args, "--out", "out"));
    let corpus = arg(&args, "--corpus", "");
    std::fs::create_dir_all(&outdir).unwrap();
    std::panic::set_hook(Box::new(|_| {}));
    let mut rng = Rng::new(seed);
    let mut rows: Vec<Value> = vec![];
    let mut st = Stats { rejected_edits: 0, refused_fill: 0, hand_rejected: 0 };
    let mut hist = 0usize;
    // corpus first: {"history": [MigrationPlan, ...]} — every plan of the stored history is one case
    if !corpus.is_empty() {
        if let Ok(rd) = std::fs::read_dir(&corpus) {
            let mut files: Vec<_> = rd.filter_map(|e| e.ok()).map(|e| e.path()).filter(|p| p.extension().map(|x| x == "json").unwrap_or(false)).collect();
            files.sort();
            for f in files {
                let Ok(txt) = std::fs::read_to_string(&f) else { continue };
                let Ok(v) = serde_json::from_str::<Value>(&txt) else { continue };
                let tag = format!("corpus:{}", f.file_name().unwrap().to_string_lossy());
                // {"models": [[TableDef..]..]}: an evolution grown by the real planner + revision fill;
                // {"history": [MigrationPlan..]}: hand-written plans; both may be present (models first)
                let mut h: Vec<MigrationPlan> = vec![];
                if let Some(ms) = v.get("models").and_then(|m| serde_json::from_value::<Vec<Vec<TableDef>>>(m.clone()).ok()) {
                    for m in &ms {
                        let Ok(p) = plan_next_migration(m, &h) else { continue };
                        if p.actions.is_empty() {
                            continue;
                        }
                        let baseline = schema_from_plans(&h).unwrap_or_default();
                        let Some(fp) = revision_fill(&p, &baseline) else { continue };
                        h.push(MigrationPlan { version: p.version, ..fp });
                    }
                }
                if let Some(hh) = v.get("history").and_then(|m| serde_json::from_value::<Vec<MigrationPlan>>(m.clone()).ok()) {
                    for mut p in hh {
                        p.version = h.len() as u32 + 1;
                        h.push(p);
                    }
                }
                if h.is_empty() {
                    eprintln!("corpus file {:?}: neither \"models\" nor \"history\" readable", f);
                    continue;
                }
                for k in 0..h.len() {
                    emit_mig(&mut rows, &h[..k], &h[k], &tag, hist, k);
                }
                hist += 1;
            }
        }
    }
    mixed_case_key_histories(&mut rows, &mut hist);
    for i in 0..n {
        let stream = match i % 5 {
            0 | 1 => "grown",
            2 => "hand",
            _ => "enum",
        };
        grow(&mut rng, &mut rows, hist, steps, stream, &mut st);
        hist += 1;
    }
    let mut s = String::new();
    for v in &rows {
        let _ = writeln!(s, "{}", v);
    }
    std::fs::write(outdir.join("cases.jsonl"), s).unwrap();
    std::fs::write(
        outdir.join("meta.json"),
        json!({"seed": seed, "n_cases": rows.len(), "histories": hist, "rejected_edits": st.rejected_edits,
               "refused_fill": st.refused_fill, "hand_rejected": st.hand_rejected}).to_string(),
    )
    .unwrap();
    println!("cases={} histories={} rejected_edits={} refused_fill={} hand_rejected={}", rows.len(), hist, st.rejected_edits, st.refused_fill, st.hand_rejected);
    let _ = (PrimaryKeySyntax::Bool(true), StrOrBoolOrArray::Bool(true));
}
