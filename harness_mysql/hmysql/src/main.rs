//! hmysql: histories, baselines, plans and the MySQL statements the implementation emits for them
//! (layer `mysql`, property C04).
//!
//!   hmysql gen --seed S --evolutions N --steps K --hand H --modseq M [--exhaustive 0|1]
//!              --out DIR [--corpus DIR]
//!
//! Every case is one migration of one history: the baseline replayed from the earlier plans
//! (`schema_from_plans`), the plan, the schema replayed after it, and for every action the strings of
//! `build_plan_queries(plan, baseline)[i].mysql[*].build(DatabaseBackend::MySql)` with empty strings
//! dropped the way every consumer drops them.  Baseline / plan / result are printed as Gallina terms; the
//! SQL goes out as JSON and is parsed by tools/mysql_sqlparse.py.
use std::fmt::Write as _;
use std::panic::{AssertUnwindSafe, catch_unwind};
use std::path::PathBuf;

use serde_json::{Value, json};
use vcommon::fill::revision_fill;
use vcommon::gallina::G;
use vcommon::gener::{self, Profile};
use vcommon::kinds::PErr;
use vcommon::rng::Rng;
use vespertide_core::schema::primary_key::{PrimaryKeyDef, PrimaryKeySyntax};
use vespertide_core::{
    ColumnDef, ColumnType, ComplexColumnType, DefaultValue, EnumValues, MigrationAction, MigrationPlan,
    SimpleColumnType, TableConstraint, TableDef,
};
use vespertide_planner::{apply_action, plan_next_migration, schema_from_plans, validate_migration_plan};
use vespertide_query::sql::build_action_queries_with_pending;
use vespertide_query::{DatabaseBackend, build_plan_queries};

fn arg(args: &[String], k: &str, d: &str) -> String {
    args.iter()
        .position(|a| a == k)
        .and_then(|i| args.get(i + 1).cloned())
        .unwrap_or_else(|| d.to_string())
}

fn kind_of(a: &MigrationAction) -> &'static str {
    use MigrationAction::*;
    match a {
        CreateTable { .. } => "CreateTable",
        DeleteTable { .. } => "DeleteTable",
        AddColumn { .. } => "AddColumn",
        RenameColumn { .. } => "RenameColumn",
        DeleteColumn { .. } => "DeleteColumn",
        ModifyColumnType { .. } => "ModifyColumnType",
        ModifyColumnNullable { .. } => "ModifyColumnNullable",
        ModifyColumnDefault { .. } => "ModifyColumnDefault",
        ModifyColumnComment { .. } => "ModifyColumnComment",
        AddConstraint { .. } => "AddConstraint",
        RemoveConstraint { .. } => "RemoveConstraint",
        RenameTable { .. } => "RenameTable",
        RawSql { .. } => "RawSql",
    }
}

/// the MySQL statements of build_plan_queries(plan, baseline) per action, empty strings dropped
fn mysql_sql(plan: &MigrationPlan, baseline: &[TableDef]) -> (Value, &'static str) {
    let r = catch_unwind(AssertUnwindSafe(|| match build_plan_queries(plan, baseline) {
            Ok(qs) => {
                let per_action: Vec<Vec<String>> = qs
                    .iter()
                    .map(|pq| {
                        pq.mysql
                            .iter()
                            .map(|q| q.build(DatabaseBackend::MySql))
                            .filter(|s| !s.is_empty())
                            .collect()
                    })
                    .collect();
                json!({"ok": per_action})
            }
            Err(e) => json!({"err": e.to_string()}),
        }));
        let mut whole = "ok";
        let mut result = match r {
            Ok(v) => v,
            Err(_) => json!({"panic": true}),
        };
        if result.get("ok").is_none() {
            // build_plan_queries builds all three backends at once: an error or panic of the PostgreSQL or
            // SQLite builder (e.g. sea-query's SQLite "precision cannot be larger than 16") takes the MySQL
            // statements down with it.  Those belong to C02/C03/C16; for C04 fall back to the same loop
            // (builder.rs:23-90) over the MySQL builder alone so the MySQL statements are still judged.
            whole = if result.get("panic").is_some() { "panic" } else { "err" };
            let r2 = catch_unwind(AssertUnwindSafe(|| {
                let mut evolving = baseline.to_vec();
                let mut per_action: Vec<Vec<String>> = vec![];
                for a in &plan.actions {
                    match build_action_queries_with_pending(&DatabaseBackend::MySql, a, &evolving, &[]) {
                        Ok(qs) => per_action.push(qs.iter().map(|q| q.build(DatabaseBackend::MySql)).filter(|s| !s.is_empty()).collect()),
                        Err(e) => return json!({"err": e.to_string()}),
                    }
                    let _ = apply_action(&mut evolving, a);
                }
                json!({"ok": per_action})
            }));
            result = match r2 {
                Ok(v) => v,
                Err(_) => json!({"panic": true}),
            };
        }
    (result, whole)
}

struct Out {
    rows: Vec<Value>,
    histories: Vec<Value>,
    literal: String,
}

/// One row per migration of the history (stops at the first plan that does not replay).
fn emit_history(out: &mut Out, tag: &str, hist: usize, history: &[MigrationPlan]) {
    out.histories.push(json!({"hist": hist, "tag": tag, "history": history}));
    for k in 0..history.len() {
        let Ok(baseline) = schema_from_plans(&history[..k]) else { return };
        let plan = &history[k];
        let after = schema_from_plans(&history[..=k]);
        let after_g = match &after {
            Ok(s) => format!("(Ok {})", s.gs()),
            Err(e) => format!("(Err {})", PErr(e).gs()),
        };
        let (result, whole) = mysql_sql(plan, &baseline);
        // C14: the same migration of the project whose tables are literally named prefix+name
        let literal = if out.literal.is_empty() {
            Value::Null
        } else {
            let lb: Vec<TableDef> = baseline.iter().map(|t| gener::literal_table(&out.literal, t)).collect();
            let lp = MigrationPlan { actions: plan.actions.iter().map(|a| gener::literal_action(&out.literal, a)).collect(), ..plan.clone() };
            mysql_sql(&lp, &lb).0
        };
        // ... and of the plan rewritten by MigrationPlan::with_prefix (what the CLI / macro do with a configured prefix)
        let with_prefix = if out.literal.is_empty() {
            Value::Null
        } else {
            let lb: Vec<TableDef> = baseline.iter().map(|t| gener::literal_table(&out.literal, t)).collect();
            mysql_sql(&plan.clone().with_prefix(&out.literal), &lb).0
        };
        let kinds: Vec<&str> = plan.actions.iter().map(kind_of).collect();
        out.rows.push(json!({
            "tag": tag, "hist": hist, "step": k,
            "baseline_g": baseline.gs(), "actions_g": plan.actions.gs(), "after_g": after_g,
            "baseline": baseline, "plan": plan, "history_len": history.len(),
            "replay_ok": after.is_ok(),
            "result": result, "whole": whole, "literal": literal, "with_prefix": with_prefix, "action_kinds": kinds, "n_tables": baseline.len(),
        }));
        if after.is_err() {
            return;
        }
    }
}

fn mkplan(version: u32, actions: Vec<MigrationAction>) -> MigrationPlan {
    MigrationPlan { id: String::new(), comment: None, created_at: None, version, actions }
}

/// Grow a history with the real planner + revision fill from a sequence of model sets.
fn grow(history: &mut Vec<MigrationPlan>, models: &[TableDef]) -> bool {
    let Ok(p) = plan_next_migration(models, history) else { return false };
    let Ok(baseline) = schema_from_plans(history) else { return false };
    let Some(f) = revision_fill(&p, &baseline) else { return false };
    if f.actions.is_empty() {
        return false;
    }
    let f = MigrationPlan { version: p.version, ..f };
    // keep only histories that stay replayable (the loader would refuse the others)
    let mut h2 = history.clone();
    h2.push(f.clone());
    if schema_from_plans(&h2).is_err() || validate_migration_plan(&f).is_err() {
        return false;
    }
    history.push(f);
    true
}

fn pk_cols(t: &TableDef) -> Vec<String> {
    for c in &t.constraints {
        if let TableConstraint::PrimaryKey { columns, .. } = c {
            return columns.clone();
        }
    }
    vec![]
}

fn fk_cols(t: &TableDef) -> Vec<String> {
    let mut v = vec![];
    for c in &t.constraints {
        if let TableConstraint::ForeignKey { columns, .. } = c {
            v.extend(columns.clone());
        }
    }
    v
}

fn referenced_cols(s: &[TableDef], table: &str) -> Vec<String> {
    let mut v = vec![];
    for t in s {
        for c in &t.constraints {
            if let TableConstraint::ForeignKey { ref_table, ref_columns, .. } = c {
                if ref_table == table {
                    v.extend(ref_columns.clone());
                }
            }
        }
    }
    v
}

/// One hand-written migration over the replayed baseline `s` (normalised tables): RenameTable,
/// RenameColumn, explicit Add/RemoveConstraint, RawSql, direct ModifyColumn*.
fn hand_plan(rng: &mut Rng, s: &[TableDef], version: u32) -> Option<MigrationPlan> {
    if s.is_empty() {
        return None;
    }
    let mut cur = s.to_vec();
    let mut actions = vec![];
    let n = rng.range(1, 3);
    for _ in 0..n {
        if cur.is_empty() {
            break;
        }
        let ti = rng.below(cur.len());
        let t = cur[ti].clone();
        let colnames: Vec<String> = t.columns.iter().map(|c| c.name.clone()).collect();
        let a: Option<MigrationAction> = match rng.below(14) {
            12 | 13 => {
                // AddColumn: any combination of nullable x default x fill_with
                let name = rng.pick(&["added", "extra", "note2"]).to_string();
                if colnames.contains(&name) { None } else {
                    let (ty, dv, fv) = rng.pick(&addcol_types()).clone();
                    let mut c = gener::col(&name, ty, rng.chance(1, 2));
                    if rng.chance(1, 2) {
                        c.default = Some(dv);
                    }
                    Some(MigrationAction::AddColumn { table: t.name.clone(), column: Box::new(c), fill_with: if rng.chance(1, 2) { Some(fv) } else { None } })
                }
            }
            0 => {
                let to = rng.pick(&["renamed", "t2", "account", "item2", "a_b2"]).to_string();
                if cur.iter().any(|x| x.name == to) { None } else { Some(MigrationAction::RenameTable { from: t.name.clone(), to }) }
            }
            1 | 2 => {
                let from = rng.pick(&colnames).clone();
                let to = rng.pick(&["renamed_col", "x", "y", "title", "a2"]).to_string();
                if colnames.contains(&to) { None } else { Some(MigrationAction::RenameColumn { table: t.name.clone(), from, to }) }
            }
            3 | 4 => {
                // add unique / index
                let k = rng.range(1, colnames.len().min(2));
                let mut p = colnames.clone();
                rng.shuffle(&mut p);
                let cols: Vec<String> = p.into_iter().take(k).collect();
                let name = if rng.chance(1, 3) { Some(rng.pick(gener::NAME_POOL).to_string()) } else { None };
                let c = if rng.chance(1, 2) { TableConstraint::Unique { name, columns: cols } } else { TableConstraint::Index { name, columns: cols } };
                if t.constraints.contains(&c) { None } else { Some(MigrationAction::AddConstraint { table: t.name.clone(), constraint: c }) }
            }
            5 => {
                let name = rng.pick(&["chk_hand", "ck2"]).to_string();
                if t.constraints.iter().any(|c| matches!(c, TableConstraint::Check { name: n, .. } if *n == name)) {
                    None
                } else {
                    Some(MigrationAction::AddConstraint { table: t.name.clone(), constraint: TableConstraint::Check { name, expr: format!("{} IS NOT NULL", colnames[0]) } })
                }
            }
            6 => {
                // add FK to another table's single-column PK
                if cur.len() < 2 { None } else {
                    let oi = (ti + 1 + rng.below(cur.len() - 1)) % cur.len();
                    let target = cur[oi].clone();
                    let tpk = pk_cols(&target);
                    let fkc = fk_cols(&t);
                    let cand: Vec<&ColumnDef> = t.columns.iter().filter(|c| !fkc.contains(&c.name)).collect();
                    if tpk.len() != 1 || cand.is_empty() { None } else {
                        let rty = target.columns.iter().find(|c| c.name == tpk[0]).map(|c| c.r#type.clone());
                        let same: Vec<&&ColumnDef> = cand.iter().filter(|c| Some(&c.r#type) == rty.as_ref()).collect();
                        if same.is_empty() { None } else {
                            let c = rng.pick(&same);
                            Some(MigrationAction::AddConstraint { table: t.name.clone(), constraint: TableConstraint::ForeignKey {
                                name: if rng.chance(1, 3) { Some("hand_fk".into()) } else { None },
                                columns: vec![c.name.clone()], ref_table: target.name.clone(), ref_columns: tpk,
                                on_delete: if rng.chance(1, 2) { Some(rng.pick(&gener::ref_actions()).clone()) } else { None }, on_update: None } })
                        }
                    }
                }
            }
            7 | 8 => {
                // remove an existing constraint exactly as the baseline holds it (not a PK that others reference)
                let refd = referenced_cols(&cur, &t.name);
                let cands: Vec<&TableConstraint> = t.constraints.iter().filter(|c| match c {
                    TableConstraint::PrimaryKey { columns, .. } | TableConstraint::Unique { columns, .. } => !columns.iter().any(|x| refd.contains(x)),
                    _ => true,
                }).collect();
                if cands.is_empty() { None } else {
                    Some(MigrationAction::RemoveConstraint { table: t.name.clone(), constraint: (*rng.pick(&cands)).clone() })
                }
            }
            9 => Some(MigrationAction::RawSql { sql: rng.pick(&["SELECT 1", "UPDATE `user` SET `a` = 1 WHERE 1 = 0", "DROP TABLE IF EXISTS `zzz`"]).to_string() }),
            10 => {
                let c = rng.pick(&t.columns).clone();
                Some(MigrationAction::ModifyColumnComment { table: t.name.clone(), column: c.name.clone(), new_comment: if rng.chance(1, 3) { None } else { Some("it's hand made".into()) } })
            }
            _ => {
                let c = rng.pick(&t.columns).clone();
                let d = gener::gen_default(rng, &c.r#type, Profile::Engine).map(|d| d.to_sql());
                Some(MigrationAction::ModifyColumnDefault { table: t.name.clone(), column: c.name.clone(), new_default: d })
            }
        };
        if let Some(a) = a {
            let mut next = cur.clone();
            if apply_action(&mut next, &a).is_ok() {
                cur = next;
                actions.push(a);
            }
        }
    }
    if actions.is_empty() {
        return None;
    }
    let p = mkplan(version, actions);
    if validate_migration_plan(&p).is_err() {
        return None;
    }
    Some(p)
}

// ---------------------------------------------------------------------------------------------------
// successive single-attribute edits of one column (type / nullability / default / comment)

#[derive(Clone, Copy, PartialEq, Eq, Debug)]
enum Edit {
    Type,
    Null,
    Default,
    Comment,
}
const EDITS: [Edit; 4] = [Edit::Type, Edit::Null, Edit::Default, Edit::Comment];

fn int_types() -> Vec<ColumnType> {
    vec![
        ColumnType::Simple(SimpleColumnType::Integer),
        ColumnType::Simple(SimpleColumnType::BigInt),
        ColumnType::Simple(SimpleColumnType::SmallInt),
    ]
}

fn other_types() -> Vec<ColumnType> {
    vec![
        ColumnType::Simple(SimpleColumnType::Text),
        ColumnType::Complex(ComplexColumnType::Varchar { length: 32 }),
        ColumnType::Complex(ComplexColumnType::Varchar { length: 255 }),
        ColumnType::Simple(SimpleColumnType::Integer),
        ColumnType::Simple(SimpleColumnType::BigInt),
        ColumnType::Simple(SimpleColumnType::Boolean),
        ColumnType::Simple(SimpleColumnType::Timestamp),
        ColumnType::Complex(ComplexColumnType::Numeric { precision: 10, scale: 2 }),
        ColumnType::Complex(ComplexColumnType::Enum { name: "status".into(), values: EnumValues::String(vec!["active".into(), "inactive".into()]) }),
        ColumnType::Complex(ComplexColumnType::Enum { name: "status".into(), values: EnumValues::String(vec!["active".into(), "inactive".into(), "pending".into()]) }),
        ColumnType::Complex(ComplexColumnType::Enum { name: "level".into(), values: EnumValues::Integer(vec![vespertide_core::NumValue { name: "low".into(), value: 0 }, vespertide_core::NumValue { name: "high".into(), value: 1 }]) }),
    ]
}

fn default_for(rng: &mut Rng, t: &ColumnType) -> Option<DefaultValue> {
    use SimpleColumnType::*;
    Some(match t {
        ColumnType::Simple(SmallInt | Integer | BigInt) => {
            if rng.chance(1, 2) { DefaultValue::Integer(*rng.pick(&[0i64, 1, 42])) } else { DefaultValue::String(rng.pick(&["0", "7"]).to_string()) }
        }
        ColumnType::Simple(Boolean) => DefaultValue::Bool(rng.chance(1, 2)),
        ColumnType::Simple(Timestamp | Timestamptz) => DefaultValue::String(rng.pick(&["CURRENT_TIMESTAMP", "now()"]).to_string()),
        ColumnType::Simple(Text) | ColumnType::Complex(ComplexColumnType::Varchar { .. }) => DefaultValue::String(rng.pick(&["'x'", "", "'hello world'"]).to_string()),
        ColumnType::Complex(ComplexColumnType::Numeric { .. }) => DefaultValue::Integer(0),
        ColumnType::Complex(ComplexColumnType::Enum { values: EnumValues::String(l), .. }) => {
            let v = rng.pick(l).clone();
            DefaultValue::String(if rng.chance(1, 2) { format!("'{}'", v) } else { v })
        }
        ColumnType::Complex(ComplexColumnType::Enum { values: EnumValues::Integer(l), .. }) => DefaultValue::Integer(rng.pick(l).value as i64),
        _ => return None,
    })
}

/// apply one single-attribute edit to column `col` of table `tab` in the model set
fn edit_column(rng: &mut Rng, m: &mut [TableDef], tab: &str, col: &str, e: Edit, is_key: bool) -> bool {
    let Some(t) = m.iter_mut().find(|t| t.name == tab) else { return false };
    let Some(c) = t.columns.iter_mut().find(|c| c.name == col) else { return false };
    match e {
        Edit::Type => {
            let pool = if is_key { int_types() } else { other_types() };
            let cands: Vec<ColumnType> = pool.into_iter().filter(|x| *x != c.r#type).collect();
            c.r#type = rng.pick(&cands).clone();
            true
        }
        Edit::Null => {
            if is_key {
                return false; // A2: key columns stay NOT NULL
            }
            c.nullable = !c.nullable;
            true
        }
        Edit::Default => {
            let nd = if c.default.is_some() && rng.chance(1, 3) { None } else { default_for(rng, &c.r#type) };
            if nd.as_ref().map(|d| d.to_sql()) == c.default.as_ref().map(|d| d.to_sql()) {
                c.default = if c.default.is_some() { None } else { Some(DefaultValue::Integer(5)) };
            } else {
                c.default = nd;
            }
            true
        }
        Edit::Comment => {
            c.comment = match &c.comment {
                None => Some(rng.pick(&["first", "it's a note"]).to_string()),
                Some(x) if x == "first" => Some("second".into()),
                Some(_) => if rng.chance(1, 2) { None } else { Some("first".into()) },
            };
            true
        }
    }
}

fn modseq_base(rng: &mut Rng, auto: bool) -> Vec<TableDef> {
    // a small fixed shape: key column `id` (auto increment or not), two ordinary columns, an index
    let idt = rng.pick(&int_types()).clone();
    let mut id = gener::col("id", idt, false);
    let mut constraints = vec![];
    if rng.chance(1, 2) {
        id.primary_key = Some(if auto { PrimaryKeySyntax::Object(PrimaryKeyDef { auto_increment: true }) } else { PrimaryKeySyntax::Bool(true) });
    } else {
        constraints.push(TableConstraint::PrimaryKey { auto_increment: auto, columns: vec!["id".into()] });
    }
    let mut name = gener::col("name", ColumnType::Complex(ComplexColumnType::Varchar { length: 32 }), rng.chance(1, 2));
    if rng.chance(1, 2) {
        name.default = Some(DefaultValue::String("'x'".into()));
    }
    if rng.chance(1, 3) {
        name.comment = Some("first".into());
    }
    let mut n = gener::col("n", ColumnType::Simple(SimpleColumnType::Integer), true);
    if rng.chance(1, 2) {
        n.default = Some(DefaultValue::Integer(1));
    }
    if rng.chance(1, 3) {
        constraints.push(TableConstraint::Index { name: None, columns: vec!["name".into()] });
    }
    vec![TableDef { name: "t".into(), description: None, columns: vec![id, name, n], constraints }]
}

/// a history: creation, then one migration per edit of the sequence
fn modseq_history(rng: &mut Rng, base: Vec<TableDef>, tab: &str, col: &str, is_key: bool, seq: &[Edit]) -> Vec<MigrationPlan> {
    let mut history = vec![];
    let mut m = base;
    if !gener::loader_accepts(&m) || !grow(&mut history, &m) {
        return history;
    }
    for e in seq {
        let mut cand = m.clone();
        if !edit_column(rng, &mut cand, tab, col, *e, is_key) || !gener::loader_accepts(&cand) {
            continue;
        }
        if grow(&mut history, &cand) {
            m = cand;
        }
    }
    history
}

/// D. the auto-increment key column `id` of the fixed shape retyped across the integer / non-integer boundary and
/// back by hand-written migrations (the loader refuses such MODELS, a migration file may still say it), interleaved
/// with comment changes of the key column and default / nullability changes of its neighbours.  `fixed`: a scripted
/// sequence of new types for `id`; otherwise random.
fn autokey_history(rng: &mut Rng, fixed: Option<&[ColumnType]>) -> Vec<MigrationPlan> {
    let mut history = vec![];
    let base = modseq_base(rng, true);
    if !gener::loader_accepts(&base) || !grow(&mut history, &base) {
        return history;
    }
    let pool = vec![
        ColumnType::Simple(SimpleColumnType::Integer),
        ColumnType::Simple(SimpleColumnType::BigInt),
        ColumnType::Simple(SimpleColumnType::SmallInt),
        ColumnType::Complex(ComplexColumnType::Varchar { length: 36 }),
        ColumnType::Simple(SimpleColumnType::Uuid),
        ColumnType::Simple(SimpleColumnType::Text),
    ];
    let mut cur = base[0].columns[0].r#type.clone();
    let mut script: Vec<ColumnType> = fixed.map(|f| f.to_vec()).unwrap_or_default();
    script.reverse();
    let steps = if fixed.is_some() { script.len() * 2 } else { rng.range(4, 7) };
    let mut name_nullable = base[0].columns[1].nullable;
    for i in 0..steps {
        let retype = if fixed.is_some() { i % 2 == 0 } else { rng.chance(1, 2) };
        let a = if retype {
            let nt = match script.pop() {
                Some(t) => t,
                None if fixed.is_some() => break,
                None => {
                    let cands: Vec<ColumnType> = pool.iter().filter(|x| **x != cur).cloned().collect();
                    rng.pick(&cands).clone()
                }
            };
            if nt == cur {
                continue;
            }
            cur = nt.clone();
            MigrationAction::ModifyColumnType { table: "t".into(), column: "id".into(), new_type: nt, fill_with: None }
        } else {
            match rng.range(0, 3) {
                0 => MigrationAction::ModifyColumnComment { table: "t".into(), column: "id".into(), new_comment: if rng.chance(1, 4) { None } else { Some(rng.pick(&["key", "it's the key"]).to_string()) } },
                1 => MigrationAction::ModifyColumnDefault { table: "t".into(), column: "n".into(), new_default: Some(rng.pick(&["0", "7"]).to_string()) },
                _ => {
                    name_nullable = !name_nullable;
                    MigrationAction::ModifyColumnNullable { table: "t".into(), column: "name".into(), nullable: name_nullable, fill_with: if name_nullable { None } else { Some("'x'".into()) } }
                }
            }
        };
        let p = mkplan(history.len() as u32 + 1, vec![a]);
        if validate_migration_plan(&p).is_err() {
            continue;
        }
        let mut h2 = history.clone();
        h2.push(p);
        if schema_from_plans(&h2).is_ok() {
            history = h2;
        }
    }
    history
}

/// E. a hand-written AddColumn on the fixed shape for one combination of nullable x default x fill_with (the planner +
/// revision only ever write fill_with for NOT NULL columns without a default), followed by a comment change of the new
/// column (its MODIFY must restate what the ADD COLUMN sequence left).
fn addcol_history(rng: &mut Rng, ty: &ColumnType, nullable: bool, default: Option<DefaultValue>, fill: Option<String>) -> Vec<MigrationPlan> {
    let mut history = vec![];
    let auto = rng.chance(1, 2);
    let base = modseq_base(rng, auto);
    if !gener::loader_accepts(&base) || !grow(&mut history, &base) {
        return history;
    }
    let mut c = gener::col("added", ty.clone(), nullable);
    c.default = default;
    let steps = vec![
        MigrationAction::AddColumn { table: "t".into(), column: Box::new(c), fill_with: fill },
        MigrationAction::ModifyColumnComment { table: "t".into(), column: "added".into(), new_comment: Some("added by hand".into()) },
    ];
    for a in steps {
        let p = mkplan(history.len() as u32 + 1, vec![a]);
        if validate_migration_plan(&p).is_err() {
            break;
        }
        let mut h2 = history.clone();
        h2.push(p);
        if schema_from_plans(&h2).is_err() {
            break;
        }
        history = h2;
    }
    history
}

/// (type, a default literal, a fill literal different from the default)
fn addcol_types() -> Vec<(ColumnType, DefaultValue, String)> {
    vec![
        (ColumnType::Simple(SimpleColumnType::Integer), DefaultValue::Integer(0), "7".to_string()),
        (ColumnType::Complex(ComplexColumnType::Varchar { length: 20 }), DefaultValue::String("'new'".into()), "'legacy'".to_string()),
        (ColumnType::Simple(SimpleColumnType::Text), DefaultValue::String("'x'".into()), "''".to_string()),
        (ColumnType::Simple(SimpleColumnType::Boolean), DefaultValue::Bool(false), "true".to_string()),
        (ColumnType::Complex(ComplexColumnType::Enum { name: "status".into(), values: EnumValues::String(vec!["active".into(), "inactive".into()]) }),
         DefaultValue::String("'active'".into()), "'inactive'".to_string()),
        (ColumnType::Complex(ComplexColumnType::Numeric { precision: 10, scale: 2 }), DefaultValue::Integer(0), "1.5".to_string()),
    ]
}

fn pick_column(rng: &mut Rng, m: &[TableDef], want_key: bool) -> Option<(String, String, bool)> {
    let mut cands = vec![];
    for t in m {
        let Ok(n) = t.normalize() else { continue };
        let pk = pk_cols(&n);
        let auto = n.constraints.iter().any(|c| matches!(c, TableConstraint::PrimaryKey { auto_increment: true, .. }));
        let fks = fk_cols(&n);
        let refd = referenced_cols(m, &t.name);
        for c in &t.columns {
            let is_key = pk.contains(&c.name);
            if fks.contains(&c.name) {
                continue; // A6
            }
            if want_key && is_key && auto && pk.len() == 1 {
                cands.push((t.name.clone(), c.name.clone(), true));
            }
            if !want_key && !is_key && !refd.contains(&c.name) {
                cands.push((t.name.clone(), c.name.clone(), false));
            }
        }
    }
    if cands.is_empty() { None } else { Some(rng.pick(&cands).clone()) }
}

fn permutations(items: &[Edit]) -> Vec<Vec<Edit>> {
    if items.len() <= 1 {
        return vec![items.to_vec()];
    }
    let mut out = vec![];
    for i in 0..items.len() {
        let mut rest = items.to_vec();
        let x = rest.remove(i);
        for mut p in permutations(&rest) {
            p.insert(0, x);
            out.push(p);
        }
    }
    out
}

fn sequences(len: usize) -> Vec<Vec<Edit>> {
    let mut out: Vec<Vec<Edit>> = vec![vec![]];
    for _ in 0..len {
        let mut next = vec![];
        for s in &out {
            for e in EDITS {
                let mut s2 = s.clone();
                s2.push(e);
                next.push(s2);
            }
        }
        out = next;
    }
    out
}

fn main() {
    let args: Vec<String> = std::env::args().collect();
    if args.get(1).map(|s| s.as_str()) != Some("gen") {
        eprintln!("usage: hmysql gen --seed S --evolutions N --steps K --hand H --modseq M --exhaustive 0|1 --out DIR [--corpus DIR]");
        std::process::exit(2);
    }
    let seed: u64 = arg(&args, "--seed", "1").parse().unwrap_or(1);
    let n_evo: usize = arg(&args, "--evolutions", "40").parse().unwrap();
    let steps: usize = arg(&args, "--steps", "3").parse().unwrap();
    let n_hand: usize = arg(&args, "--hand", "30").parse().unwrap();
    let n_modseq: usize = arg(&args, "--modseq", "30").parse().unwrap();
    let exhaustive: usize = arg(&args, "--exhaustive", "0").parse().unwrap();
    let no_enum: usize = arg(&args, "--no-enum", "0").parse().unwrap();
    let outdir = PathBuf::from(arg(&args, "--out", "out"));
    let corpus = arg(&args, "--corpus", "");
    std::fs::create_dir_all(&outdir).unwrap();
    std::panic::set_hook(Box::new(|_| {})); // panics are outcomes (catch_unwind), not noise
    let mut rng = Rng::new(seed);
    let mut out = Out { rows: vec![], histories: vec![], literal: arg(&args, "--literal", "") };
    let mut hist = 0usize;
    let mut rejected = 0usize;

    // corpus first: {"history": [MigrationPlan..]}
    if !corpus.is_empty() {
        if let Ok(rd) = std::fs::read_dir(&corpus) {
            let mut files: Vec<_> = rd.filter_map(|e| e.ok()).map(|e| e.path()).filter(|p| p.extension().map(|x| x == "json").unwrap_or(false)).collect();
            files.sort();
            for f in files {
                let Ok(txt) = std::fs::read_to_string(&f) else { continue };
                let Ok(v) = serde_json::from_str::<Value>(&txt) else { continue };
                let Some(h) = v.get("history").and_then(|m| serde_json::from_value::<Vec<MigrationPlan>>(m.clone()).ok()) else {
                    eprintln!("corpus file {} has no usable history", f.display());
                    continue;
                };
                let tag = format!("corpus:{}", f.file_name().unwrap().to_string_lossy());
                emit_history(&mut out, &tag, hist, &h);
                hist += 1;
            }
        }
    }

    // A. evolutions grown by the real planner
    for _ in 0..n_evo {
        let evo = gener::gen_evolution(&mut rng, steps, Profile::Engine, &mut rejected);
        let mut history = vec![];
        for m in &evo {
            grow(&mut history, m);
        }
        emit_history(&mut out, "evolution", hist, &history);
        hist += 1;
    }

    // B. hand-extended histories: grown prefix, hand-written migrations, then the planner again
    for _ in 0..n_hand {
        let evo = gener::gen_evolution(&mut rng, 2, Profile::Engine, &mut rejected);
        let mut history = vec![];
        for m in &evo {
            grow(&mut history, m);
        }
        for _ in 0..rng.range(1, 3) {
            let Ok(b) = schema_from_plans(&history) else { break };
            if let Some(p) = hand_plan(&mut rng, &b, history.len() as u32 + 1) {
                let mut h2 = history.clone();
                h2.push(p);
                if schema_from_plans(&h2).is_ok() {
                    history = h2;
                }
            }
        }
        // the planner continues from the hand-made state
        if let Ok(b) = schema_from_plans(&history) {
            let mut m = b.clone();
            for _ in 0..rng.range(1, 4) {
                gener::edit_models(&mut rng, &mut m, Profile::Engine);
            }
            if gener::loader_accepts(&m) {
                grow(&mut history, &m);
            }
        }
        emit_history(&mut out, "hand", hist, &history);
        hist += 1;
    }

    // C. successive single-attribute edits of one column
    for i in 0..n_modseq {
        let want_key = i % 2 == 0;
        let (base, tab, col, is_key) = if rng.chance(1, 2) {
            (modseq_base(&mut rng, want_key), "t".to_string(), if want_key { "id".to_string() } else { rng.pick(&["name", "n"]).to_string() }, want_key)
        } else {
            let m = gener::gen_models(&mut rng, Profile::Engine);
            match pick_column(&mut rng, &m, want_key) {
                Some((t, c, k)) => (m, t, c, k),
                None => (modseq_base(&mut rng, want_key), "t".to_string(), if want_key { "id".to_string() } else { "name".to_string() }, want_key),
            }
        };
        let len = rng.range(3, 5);
        let seq: Vec<Edit> = (0..len).map(|_| *rng.pick(&EDITS)).collect();
        let h = modseq_history(&mut rng, base, &tab, &col, is_key, &seq);
        emit_history(&mut out, "modseq", hist, &h);
        hist += 1;
    }
    // every order of the four kinds (quick), every sequence of length 3 and 4 (exhaustive), on the
    // fixed shape, for an ordinary column and for the auto-increment key column
    let mut seqs = if no_enum > 0 { vec![] } else { permutations(&EDITS) };
    if exhaustive > 0 {
        seqs.extend(sequences(3));
        seqs.extend(sequences(4));
    }
    for seq in &seqs {
        for (col, is_key) in [("name", false), ("id", true)] {
            let base = modseq_base(&mut rng, true);
            let h = modseq_history(&mut rng, base, "t", col, is_key, seq);
            emit_history(&mut out, "modseq-enum", hist, &h);
            hist += 1;
        }
    }

    // D. the auto-increment key column retyped across the integer / non-integer boundary and back
    {
        use SimpleColumnType::*;
        let v36 = ColumnType::Complex(ComplexColumnType::Varchar { length: 36 });
        let st = |t: SimpleColumnType| ColumnType::Simple(t);
        let scripts: Vec<Vec<ColumnType>> = vec![
            vec![v36.clone(), st(BigInt)],
            vec![st(Text), st(SmallInt), st(Uuid), st(Integer)],
            vec![st(BigInt), v36.clone(), st(Integer), st(SmallInt)],
            vec![st(Uuid), st(Text), st(BigInt)],
        ];
        for sc in &scripts {
            let h = autokey_history(&mut rng, Some(sc));
            emit_history(&mut out, "autokey", hist, &h);
            hist += 1;
        }
        for _ in 0..std::cmp::max(6, n_modseq / 3) {
            let h = autokey_history(&mut rng, None);
            emit_history(&mut out, "autokey", hist, &h);
            hist += 1;
        }
    }

    // E. AddColumn: nullable x default x fill_with, plain and enum types (every combination, every run)
    for (ty, dv, fv) in addcol_types() {
        for nullable in [false, true] {
            for with_default in [false, true] {
                for with_fill in [false, true] {
                    let h = addcol_history(&mut rng, &ty, nullable, if with_default { Some(dv.clone()) } else { None }, if with_fill { Some(fv.clone()) } else { None });
                    emit_history(&mut out, "addcol", hist, &h);
                    hist += 1;
                }
            }
        }
    }

    let mut s = String::new();
    for v in &out.rows {
        let _ = writeln!(s, "{}", v);
    }
    std::fs::write(outdir.join("cases.jsonl"), s).unwrap();
    let mut hs = String::new();
    for v in &out.histories {
        let _ = writeln!(hs, "{}", v);
    }
    std::fs::write(outdir.join("histories.jsonl"), hs).unwrap();
    std::fs::write(outdir.join("meta.json"), json!({"seed": seed, "n_cases": out.rows.len(), "histories": hist, "rejected_edits": rejected}).to_string()).unwrap();
    println!("cases={} histories={} rejected_edits={}", out.rows.len(), hist, rejected);
}
