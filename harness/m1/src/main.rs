//! hm1: correspondence cases and implementation-side oracles for the schema-algebra layer (M1).
//!   hm1 gen --seed S --evolutions N --steps K --out DIR [--malformed M] [--per-shard P] [--corpus DIR]
use std::collections::BTreeSet;
use std::fmt::Write as _;
use std::panic::{AssertUnwindSafe, catch_unwind};
use std::path::PathBuf;

use serde_json::{Value, json};
use vcommon::fill::revision_fill;
use vcommon::gallina::{G, Raw, app};
use vcommon::gener::{self, Profile};
use vcommon::kinds::{PErr, TErr, VErr};
use vcommon::rng::Rng;
use vespertide_core::{MigrationAction, MigrationPlan, TableConstraint, TableDef};
use vespertide_planner::{
    apply_action, diff_schemas, find_missing_enum_fill_with, find_missing_fill_with,
    plan_next_migration, schema_from_plans, validate_migration_plan, validate_schema,
};

fn arg(args: &[String], k: &str, d: &str) -> String {
    args.iter()
        .position(|a| a == k)
        .and_then(|i| args.get(i + 1).cloned())
        .unwrap_or_else(|| d.to_string())
}

/// referential consistency of an intermediate schema (C06's `consistent`): distinct table names,
/// constraint columns exist, FK targets exist with their columns and matching arity.
fn inconsistent(s: &[TableDef]) -> Option<String> {
    let mut names = BTreeSet::new();
    for t in s {
        if !names.insert(t.name.as_str()) {
            return Some(format!("duplicate table {}", t.name));
        }
    }
    for t in s {
        let n = match t.normalize() {
            Ok(n) => n,
            Err(e) => return Some(format!("normalize {}: {}", t.name, e)),
        };
        let cols: BTreeSet<&str> = n.columns.iter().map(|c| c.name.as_str()).collect();
        for c in &n.constraints {
            for col in c.columns() {
                if !cols.contains(col.as_str()) {
                    return Some(format!("{}: constraint column {} missing", t.name, col));
                }
            }
            if let TableConstraint::ForeignKey {
                columns,
                ref_table,
                ref_columns,
                ..
            } = c
            {
                let Some(rt) = s.iter().find(|x| x.name == *ref_table) else {
                    return Some(format!("{}: FK target table {} missing", t.name, ref_table));
                };
                for rc in ref_columns {
                    if !rt.columns.iter().any(|x| x.name == *rc) {
                        return Some(format!("{}: FK target column {}.{} missing", t.name, ref_table, rc));
                    }
                }
                if columns.len() != ref_columns.len() || columns.is_empty() {
                    return Some(format!("{}: FK arity", t.name));
                }
            }
        }
    }
    None
}

/// does the action target something that exists as it names it?
fn target_missing(s: &[TableDef], a: &MigrationAction) -> Option<String> {
    if let MigrationAction::RemoveConstraint { table, constraint } = a {
        let t = s.iter().find(|t| t.name == *table)?;
        if !t.constraints.contains(constraint) {
            return Some(format!("RemoveConstraint on {}: constraint not present as named", table));
        }
    }
    None
}

fn plan_json(p: &MigrationPlan) -> Value {
    serde_json::to_value(p).unwrap_or(Value::Null)
}

struct Out {
    cases: Vec<String>,
    side: Vec<Value>,
}

fn schema_equiv_impl(a: &[TableDef], b: &[TableDef]) -> bool {
    // the implementation's own notion: diff both ways is empty
    matches!(diff_schemas(a, b), Ok(p) if p.actions.is_empty())
        && matches!(diff_schemas(b, a), Ok(p) if p.actions.is_empty())
}

fn emit_case(out: &mut Out, rng: &mut Rng, models: &[TableDef], history: &[MigrationPlan], tag: &str, evo: usize, step: usize) -> Option<MigrationPlan> {
    // ---- implementation outputs (under catch_unwind: a panic is an outcome, not a crash) ----
    let r = catch_unwind(AssertUnwindSafe(|| {
        let norm: Vec<String> = models
            .iter()
            .map(|t| match t.normalize() {
                Ok(n) => format!("(Ok {})", n.gs()),
                Err(e) => format!("(Err {})", TErr(&e).gs()),
            })
            .collect();
        // loader acceptance (models.rs:10-35)
        let load = if models.is_empty() {
            "(Ok tt)".to_string()
        } else {
            let mut ns = vec![];
            let mut err = None;
            for t in models {
                match t.normalize() {
                    Ok(n) => ns.push(n),
                    Err(e) => {
                        err = Some(format!("(Err (LoadNormalize {}))", TErr(&e).gs()));
                        break;
                    }
                }
            }
            match err {
                Some(e) => e,
                None => match validate_schema(&ns) {
                    Ok(()) => "(Ok tt)".to_string(),
                    Err(e) => format!("(Err (LoadValidate {}))", VErr(&e).gs()),
                },
            }
        };
        let replay = schema_from_plans(history);
        let replay_g = match &replay {
            Ok(s) => format!("(Ok {})", s.gs()),
            Err(e) => format!("(Err {})", PErr(e).gs()),
        };
        let plan = plan_next_migration(models, history);
        let plan_g = match &plan {
            Ok(p) => format!("(Ok ({}, {}))", p.version.gs(), p.actions.gs()),
            Err(e) => format!("(Err {})", PErr(e).gs()),
        };
        let baseline = replay.as_ref().cloned().unwrap_or_default();
        let np = plan.as_ref().cloned().unwrap_or(MigrationPlan {
            id: String::new(),
            comment: None,
            created_at: None,
            version: 0,
            actions: vec![],
        });
        let missing: Vec<String> = find_missing_fill_with(&np, &baseline)
            .iter()
            .map(|m| format!("({}, {}, {})", m.action_index.gs(), m.table.gs(), m.column.gs()))
            .collect();
        let missing_enum: Vec<String> = find_missing_enum_fill_with(&np, &baseline)
            .iter()
            .map(|m| format!("({}, {})", m.action_index.gs(), m.removed_values.gs()))
            .collect();
        let filled = revision_fill(&np, &baseline);
        let fill_g = match &filled {
            Some(p) => format!("(Filled {})", p.actions.gs()),
            None => "Refused".to_string(),
        };
        let filled_plan = filled.clone().unwrap_or(np.clone());
        let mut validate: Vec<String> = vec![];
        for p in history.iter().chain(std::iter::once(&MigrationPlan { version: 0, ..filled_plan.clone() })) {
            validate.push(match validate_migration_plan(p) {
                Ok(()) => "(Ok tt)".to_string(),
                Err(e) => format!("(Err {})", VErr(&e).gs()),
            });
        }
        // the filled plan with every fill value replaced by something that is no enum label (Corr.v corrupt_fill)
        {
            let mut bad = filled_plan.clone();
            for a in bad.actions.iter_mut() {
                match a {
                    MigrationAction::AddColumn { fill_with, .. } | MigrationAction::ModifyColumnNullable { fill_with, .. } => *fill_with = Some("'zzz_not_a_label'".to_string()),
                    _ => {}
                }
            }
            validate.push(match validate_migration_plan(&MigrationPlan { version: 0, ..bad }) {
                Ok(()) => "(Ok tt)".to_string(),
                Err(e) => format!("(Err {})", VErr(&e).gs()),
            });
        }
        // with_prefix of the planned actions and of the actions as `revision` writes them (fill values included)
        let mut prefixed_actions = np.clone().with_prefix("app_").actions;
        prefixed_actions.extend(filled_plan.clone().with_prefix("app_").actions);
        let prefixed = prefixed_actions.gs();
        let validate_raw = match validate_migration_plan(&np) {
            Ok(()) => "(Ok tt)".to_string(),
            Err(e) => format!("(Err {})", VErr(&e).gs()),
        };

        // ---- oracles on the implementation ----
        let mut oracles = serde_json::Map::new();
        if let (Ok(p), Ok(b), true) = (&plan, &replay, gener::loader_accepts(models)) {
            // O-C06: stepwise application
            let mut s = b.clone();
            let mut c06: Option<(usize, String)> = None;
            let fp = filled.clone().unwrap_or(p.clone());
            for (k, a) in fp.actions.iter().enumerate() {
                if c06.is_none() {
                    if let Some(why) = target_missing(&s, a) {
                        c06 = Some((k, why));
                    }
                }
                if let Err(e) = apply_action(&mut s, a) {
                    if c06.is_none() {
                        c06 = Some((k, format!("apply error: {}", e)));
                    }
                    break;
                }
                if c06.is_none() {
                    if let Some(why) = inconsistent(&s) {
                        c06 = Some((k + 1, why));
                    }
                }
            }
            oracles.insert("c06".into(), match &c06 { None => json!({"ok": true}), Some((k, w)) => json!({"ok": false, "prefix": k, "why": w}) });
            // O-C01: apply, re-diff
            let mut s = b.clone();
            let mut apply_err = None;
            for a in &fp.actions {
                if let Err(e) = apply_action(&mut s, a) {
                    apply_err = Some(e.to_string());
                    break;
                }
            }
            let c01 = if let Some(e) = apply_err {
                json!({"ok": false, "why": format!("apply error: {}", e)})
            } else {
                match diff_schemas(&s, models) {
                    Ok(d) if d.actions.is_empty() => {
                        if schema_equiv_impl(&s, models) { json!({"ok": true}) } else { json!({"ok": false, "why": "reverse diff not empty"}) }
                    }
                    Ok(d) => json!({"ok": false, "why": "re-diff not empty", "residue": d.actions.iter().map(|a| a.to_string()).collect::<Vec<_>>()}),
                    Err(e) => json!({"ok": false, "why": format!("re-diff error: {}", e)}),
                }
            };
            oracles.insert("c01".into(), c01);
            // O-C08: permuted table orders give the same plan
            let mut ok8 = true;
            for _ in 0..2 {
                let mut m2 = models.to_vec();
                rng.shuffle(&mut m2);
                let mut b2 = b.clone();
                rng.shuffle(&mut b2);
                match diff_schemas(&b2, &m2) {
                    Ok(d) => {
                        if d.actions != p.actions {
                            ok8 = false;
                        }
                    }
                    Err(_) => ok8 = false,
                }
            }
            // repeated evaluation in one process (fresh hasher states): normalisation and planning must not vary
            let mut stable = true;
            for t in models {
                let first = t.normalize().ok();
                for _ in 0..4 {
                    if t.normalize().ok() != first {
                        stable = false;
                    }
                }
            }
            for _ in 0..3 {
                match diff_schemas(b, models) {
                    Ok(d) => {
                        if d.actions != p.actions {
                            stable = false;
                        }
                    }
                    Err(_) => stable = false,
                }
            }
            oracles.insert("c08".into(), json!({"ok": ok8 && stable, "permutation_invariant": ok8, "repeatable": stable}));
            // O-C14: (a) the planner is equivariant under literal renaming; (b) with_prefix equals literal renaming
            let pfx = "app_";
            let lb: Vec<TableDef> = b.iter().map(|t| gener::literal_table(pfx, t)).collect();
            let lm: Vec<TableDef> = models.iter().map(|t| gener::literal_table(pfx, t)).collect();
            let lit_plan: Vec<MigrationAction> = p.actions.iter().map(|a| gener::literal_action(pfx, a)).collect();
            let equivariant = matches!(diff_schemas(&lb, &lm), Ok(d) if d.actions == lit_plan);
            let with_prefix = p.clone().with_prefix(pfx).actions;
            let lit_filled: Vec<MigrationAction> = fp.actions.iter().map(|a| gener::literal_action(pfx, a)).collect();
            let wp_literal = with_prefix == lit_plan && fp.clone().with_prefix(pfx).actions == lit_filled;
            let first_diff = with_prefix.iter().zip(lit_plan.iter()).position(|(x, y)| x != y);
            oracles.insert("c14".into(), json!({"ok": equivariant && wp_literal, "equivariant": equivariant, "with_prefix_is_literal": wp_literal, "first_differing_action": first_diff}));
        }
        // O-C07: self diff empty, normalisation idempotent
        let self_empty = matches!(diff_schemas(models, models), Ok(p) if p.actions.is_empty()) || models.iter().any(|t| t.normalize().is_err());
        let idem = models.iter().all(|t| match t.normalize() {
            Ok(n) => n.normalize().map(|nn| nn == n).unwrap_or(false),
            Err(_) => true,
        });
        // respelling: every combination drawn from the rewriter must diff empty in both directions
        let mut respell_fail: Option<Value> = None;
        if gener::loader_accepts(models) {
            for _ in 0..3 {
                let r = gener::respell_models(rng, models);
                let ab = diff_schemas(models, &r);
                let ba = diff_schemas(&r, models);
                let ok = matches!(&ab, Ok(p) if p.actions.is_empty()) && matches!(&ba, Ok(p) if p.actions.is_empty());
                if !ok && respell_fail.is_none() {
                    respell_fail = Some(json!({"respelled": r,
                        "forward": ab.as_ref().map(|p| p.actions.iter().map(|a| a.to_string()).collect::<Vec<_>>()).map_err(|e| e.to_string()).unwrap_or_else(|e| vec![e]),
                        "backward": ba.as_ref().map(|p| p.actions.iter().map(|a| a.to_string()).collect::<Vec<_>>()).map_err(|e| e.to_string()).unwrap_or_else(|e| vec![e])}));
                }
            }
        }
        oracles.insert("c07".into(), json!({"ok": self_empty && idem && respell_fail.is_none(), "self_empty": self_empty, "idempotent": idem, "respell": respell_fail}));

        let mut g = String::new();
        app(
            &mut g,
            "mkCase",
            &[
                &models.to_vec(),
                &history.to_vec(),
                &Raw(format!("[{}]", norm.join("; "))),
                &Raw(load),
                &Raw(replay_g),
                &Raw(plan_g),
                &Raw(format!("[{}]", missing.join("; "))),
                &Raw(format!("[{}]", missing_enum.join("; "))),
                &Raw(fill_g),
                &Raw(format!("[{}]", validate.join("; "))),
                &Raw(prefixed),
                &Raw(validate_raw),
            ],
        );
        let nact = plan.as_ref().map(|p| p.actions.len()).unwrap_or(0);
        let kinds: BTreeSet<String> = plan
            .as_ref()
            .map(|p| p.actions.iter().map(|a| a.to_string().split(':').next().unwrap_or("").to_string()).collect())
            .unwrap_or_default();
        let side = json!({
            "tag": tag, "evolution": evo, "step": step,
            "models": models, "history": history.iter().map(plan_json).collect::<Vec<_>>(),
            "plan": plan.as_ref().ok().map(plan_json),
            "plan_error": plan.as_ref().err().map(|e| e.to_string()),
            "filled": filled.as_ref().map(plan_json),
            "n_actions": nact, "action_kinds": kinds, "n_tables": models.len(),
            "oracles": Value::Object(oracles),
        });
        (g, side, filled.map(|f| MigrationPlan { version: plan.as_ref().map(|p| p.version).unwrap_or(0), ..f }).filter(|_| plan.is_ok()))
    }));
    match r {
        Ok((g, side, next)) => {
            out.cases.push(g);
            out.side.push(side);
            next
        }
        Err(_) => {
            out.side.push(json!({"tag": tag, "evolution": evo, "step": step, "panic": true,
                "models": models, "history": history.iter().map(plan_json).collect::<Vec<_>>()}));
            // a panic has no Gallina rendering of outputs; the case is reported through the sidecar
            out.cases.push(String::new());
            None
        }
    }
}

fn main() {
    let args: Vec<String> = std::env::args().collect();
    let cmd = args.get(1).cloned().unwrap_or_default();
    if cmd == "names" {
        names_main(&args);
        return;
    }
    if cmd != "gen" {
        eprintln!("usage: hm1 gen --seed S --evolutions N --steps K --out DIR");
        std::process::exit(2);
    }
    let seed: u64 = arg(&args, "--seed", "1").parse().unwrap_or(1);
    let n: usize = arg(&args, "--evolutions", "50").parse().unwrap();
    let steps: usize = arg(&args, "--steps", "3").parse().unwrap();
    let malformed: usize = arg(&args, "--malformed", "10").parse().unwrap();
    let per: usize = arg(&args, "--per-shard", "40").parse().unwrap();
    let outdir = PathBuf::from(arg(&args, "--out", "out"));
    let corpus = arg(&args, "--corpus", "");
    let mut rng = Rng::new(seed);
    let mut out = Out { cases: vec![], side: vec![] };
    let mut rejected = 0usize;

    // corpus first: each file is {"models":[[TableDef..]..]} — a list of model sets (an evolution)
    let mut evo_id = 0usize;
    let mut histories: Vec<Vec<MigrationPlan>> = vec![];
    if !corpus.is_empty() {
        if let Ok(rd) = std::fs::read_dir(&corpus) {
            let mut files: Vec<_> = rd.filter_map(|e| e.ok()).map(|e| e.path()).filter(|p| p.extension().map(|x| x == "json").unwrap_or(false)).collect();
            files.sort();
            for f in files {
                let Ok(txt) = std::fs::read_to_string(&f) else { continue };
                let Ok(v) = serde_json::from_str::<Value>(&txt) else { continue };
                let Some(ms) = v.get("models").and_then(|m| serde_json::from_value::<Vec<Vec<TableDef>>>(m.clone()).ok()) else { continue };
                let mut history: Vec<MigrationPlan> = vec![];
                for (si, m) in ms.iter().enumerate() {
                    let tag = format!("corpus:{}", f.file_name().unwrap().to_string_lossy());
                    match emit_case(&mut out, &mut rng, m, &history, &tag, evo_id, si) {
                        Some(p) if !p.actions.is_empty() => history.push(p),
                        _ => {}
                    }
                }
                evo_id += 1;
            }
        }
    }
    for _ in 0..n {
        let profile = if rng.chance(1, 2) { Profile::Engine } else { Profile::Loader };
        let evo = gener::gen_evolution(&mut rng, steps, profile, &mut rejected);
        let mut history: Vec<MigrationPlan> = vec![];
        for (si, m) in evo.iter().enumerate() {
            match emit_case(&mut out, &mut rng, m, &history, "evolution", evo_id, si) {
                Some(p) if !p.actions.is_empty() => history.push(p),
                _ => {}
            }
        }
        if history.len() >= 2 && histories.len() < 60 {
            histories.push(history.clone());
        }
        evo_id += 1;
    }
    loader_cases(&outdir, &mut rng, &histories);
    for _ in 0..malformed {
        let m = gener::gen_malformed(&mut rng);
        emit_case(&mut out, &mut rng, &m, &[], "malformed", evo_id, 0);
        evo_id += 1;
    }
    // panicked cases have an empty Gallina rendering: drop them from the shards but keep indices aligned
    let mut idx_map = vec![];
    let mut cases = vec![];
    for (i, c) in out.cases.iter().enumerate() {
        if !c.is_empty() {
            idx_map.push(i);
            cases.push(c.clone());
        }
    }
    let header = "From VV.M1 Require Import Corr.\n";
    let tail = "Definition bad := mismatches_from shard_base cases.\nEval vm_compute in bad.\n";
    let names = vcommon::write_shards(&outdir, "cases_m1", header, "m1_case", &cases, per, tail).unwrap();
    let mut s = String::new();
    for v in &out.side {
        let _ = writeln!(s, "{}", v);
    }
    std::fs::write(outdir.join("cases.jsonl"), s).unwrap();
    std::fs::write(
        outdir.join("meta.json"),
        json!({"seed": seed, "shards": names, "n_cases": out.side.len(), "idx_map": idx_map, "rejected_edits": rejected, "per_shard": per}).to_string(),
    )
    .unwrap();
    println!("cases={} shards={} rejected_edits={}", out.side.len(), names.len(), rejected);
}


// ------------------------------------------------------------------------------------------ C19: names
#[derive(Clone, PartialEq, Eq, Debug)]
enum Obj {
    Index(String, Vec<String>, Option<String>),
    Unique(String, Vec<String>, Option<String>),
    Fk(String, Vec<String>, Option<String>),
    Check(String, String),
    EnumType(String, String),
    Table(String),
    TempTable(String),
}
impl Obj {
    fn name(&self) -> String {
        use vespertide_naming::*;
        match self {
            Obj::Index(t, c, k) => build_index_name(t, c, k.as_deref()),
            Obj::Unique(t, c, k) => build_unique_constraint_name(t, c, k.as_deref()),
            Obj::Fk(t, c, k) => build_foreign_key_name(t, c, k.as_deref()),
            Obj::Check(t, c) => build_check_constraint_name(t, c),
            Obj::EnumType(t, e) => build_enum_type_name(t, e),
            Obj::Table(n) => n.clone(),
            Obj::TempTable(t) => format!("{}_temp", t),
        }
    }
    fn namespaces(&self) -> &'static [u8] {
        // 0 relation, 1 constraint, 2 type (coq/m1/Model/NamePlain.v `namespaces`)
        match self {
            Obj::Index(..) => &[0],
            Obj::Unique(..) => &[0, 1],
            Obj::Fk(..) => &[1],
            Obj::Check(..) => &[1],
            Obj::EnumType(..) => &[2],
            Obj::Table(..) => &[0, 2],
            Obj::TempTable(..) => &[0],
        }
    }
    fn gs(&self) -> String {
        let mut o = String::new();
        match self {
            Obj::Index(t, c, k) => app(&mut o, "OIndex", &[t, c, k]),
            Obj::Unique(t, c, k) => app(&mut o, "OUnique", &[t, c, k]),
            Obj::Fk(t, c, k) => app(&mut o, "OForeignKey", &[t, c, k]),
            Obj::Check(t, c) => app(&mut o, "OCheck", &[t, c]),
            Obj::EnumType(t, e) => app(&mut o, "OEnumType", &[t, e]),
            Obj::Table(n) => app(&mut o, "OTable", &[n]),
            Obj::TempTable(t) => app(&mut o, "OTempTable", &[t]),
        }
        o
    }
}

fn objects_of(models: &[TableDef]) -> Vec<Obj> {
    let mut out = vec![];
    for t in models {
        let Ok(n) = t.normalize() else { continue };
        out.push(Obj::Table(n.name.clone()));
        for k in &n.constraints {
            match k {
                TableConstraint::Index { name, columns } => out.push(Obj::Index(n.name.clone(), columns.clone(), name.clone())),
                TableConstraint::Unique { name, columns } => out.push(Obj::Unique(n.name.clone(), columns.clone(), name.clone())),
                TableConstraint::ForeignKey { name, columns, .. } => out.push(Obj::Fk(n.name.clone(), columns.clone(), name.clone())),
                _ => {}
            }
        }
        let mut seen = BTreeSet::new();
        for c in &n.columns {
            if let vespertide_core::ColumnType::Complex(vespertide_core::ComplexColumnType::Enum { name, values }) = &c.r#type {
                if values.is_string() && seen.insert(name.clone()) {
                    out.push(Obj::EnumType(n.name.clone(), name.clone()));
                }
                // SQLite: one CHECK per enum column
                out.push(Obj::Check(n.name.clone(), c.name.clone()));
            }
        }
    }
    out.dedup();
    out
}

fn ident(rng: &mut Rng) -> String {
    if rng.chance(1, 6) {
        // long identifiers: derived names of 60..150 bytes (no engine limit is applied by the naming functions)
        let words = ["customer", "subscription", "billing", "history", "organization", "account", "identifier", "created_at", "updated_at"];
        let n = rng.range(3, 5);
        return (0..n).map(|_| *rng.pick(&words[..])).collect::<Vec<_>>().join("_");
    }
    let alphabet = ["a", "b", "_", "c", "__", "ab", "x_y"];
    let n = rng.range(1, 3);
    let mut s = String::new();
    for _ in 0..n {
        s.push_str(*rng.pick(&alphabet[..]));
    }
    s
}

fn names_main(args: &[String]) {
    let seed: u64 = arg(args, "--seed", "1").parse().unwrap_or(1);
    let n: usize = arg(args, "--n", "300").parse().unwrap();
    let sets: usize = arg(args, "--sets", "200").parse().unwrap();
    let outdir = PathBuf::from(arg(args, "--out", "out"));
    let mut rng = Rng::new(seed ^ 0x19);
    // K-name: random descriptors over an alphabet rich in underscores
    let mut cases = vec![];
    for _ in 0..n {
        let t = ident(&mut rng);
        let cols: Vec<String> = (0..rng.range(0, 3)).map(|_| ident(&mut rng)).collect();
        let key = if rng.chance(1, 3) { Some(ident(&mut rng)) } else { None };
        let o = match rng.below(7) {
            0 => Obj::Index(t, cols, key),
            1 => Obj::Unique(t, cols, key),
            2 => Obj::Fk(t, cols, key),
            3 => Obj::Check(t, ident(&mut rng)),
            4 => Obj::EnumType(t, ident(&mut rng)),
            5 => Obj::Table(t),
            _ => Obj::TempTable(t),
        };
        cases.push(format!("({}, {})", o.gs(), o.name().gs()));
    }
    let header = "From VV.M1 Require Import NamePlain.\n";
    let tail = "Definition bad := flat_map (fun c : named_object * string => if String.eqb (object_name (fst c)) (snd c) then [] else [snd c]) cases.\nEval vm_compute in List.length bad.\n";
    vcommon::write_shards(&outdir, "cases_names", header, "(named_object * string)", &cases, 400, tail).unwrap();
    // collision oracle on generated model sets (loader accepted, collision-biased identifier pool)
    let mut side = String::new();
    let mut pairs = vec![];
    let mut rejected = 0usize;
    for si in 0..sets {
        let profile = if rng.chance(1, 2) { Profile::Engine } else { Profile::Loader };
        let evo = gener::gen_evolution(&mut rng, 2, profile, &mut rejected);
        let mut m = evo.last().unwrap().clone();
        // collision-biased injection: shapes whose derived names can coincide (kept only if the loader still accepts)
        if !m.is_empty() && rng.chance(2, 3) {
            let mut cand = m.clone();
            let ti = rng.below(cand.len());
            let tn = cand[ti].name.clone();
            let icol = |n: &str| vcommon::gener::col(n, vespertide_core::ColumnType::Simple(vespertide_core::SimpleColumnType::Integer), true);
            match rng.below(5) {
                0 => {
                    for n in ["a", "b", "a_b"] {
                        if !cand[ti].columns.iter().any(|c| c.name == n) {
                            cand[ti].columns.push(icol(n));
                        }
                    }
                    cand[ti].constraints.push(TableConstraint::Index { name: None, columns: vec!["a_b".into()] });
                    cand[ti].constraints.push(TableConstraint::Index { name: None, columns: vec!["a".into(), "b".into()] });
                }
                1 => {
                    for n in ["a", "b", "c"] {
                        if !cand[ti].columns.iter().any(|c| c.name == n) {
                            cand[ti].columns.push(icol(n));
                        }
                    }
                    cand[ti].constraints.push(TableConstraint::Unique { name: Some("a_b".into()), columns: vec!["c".into()] });
                    cand[ti].constraints.push(TableConstraint::Unique { name: None, columns: vec!["a".into(), "b".into()] });
                }
                2 => {
                    // enum type {table}_{enum} named like another table
                    let en = "status";
                    if !cand[ti].columns.iter().any(|c| c.name == "st") {
                        cand[ti].columns.push(vcommon::gener::col("st", vespertide_core::ColumnType::Complex(vespertide_core::ComplexColumnType::Enum { name: en.into(), values: vespertide_core::EnumValues::String(vec!["x".into(), "y".into()]) }), true));
                    }
                    let other = format!("{}_{}", tn, en);
                    if !cand.iter().any(|t| t.name == other) {
                        let mut t2 = vcommon::gener::gen_table(&mut rng, &other, &[], Profile::Engine);
                        t2.name = other;
                        cand.push(t2);
                    }
                }
                3 => {
                    // a table called like the SQLite rebuild helper of another
                    let other = format!("{}_temp", tn);
                    if !cand.iter().any(|t| t.name == other) {
                        let t2 = vcommon::gener::gen_table(&mut rng, &other, &[], Profile::Engine);
                        cand.push(t2);
                    }
                }
                _ => {
                    for n in ["a", "x", "y"] {
                        if !cand[ti].columns.iter().any(|c| c.name == n) {
                            cand[ti].columns.push(icol(n));
                        }
                    }
                    cand[ti].constraints.push(TableConstraint::Index { name: Some("a".into()), columns: vec!["x".into(), "y".into()] });
                    cand[ti].constraints.push(TableConstraint::Index { name: None, columns: vec!["a".into()] });
                }
            }
            if gener::loader_accepts(&cand) {
                m = cand;
            }
        }
        let m = &m;
        let mut objs = objects_of(m);
        // every table has a potential SQLite rebuild helper
        let helpers: Vec<Obj> = objs.iter().filter_map(|o| if let Obj::Table(n) = o { Some(Obj::TempTable(n.clone())) } else { None }).collect();
        objs.extend(helpers);
        let mut coll = vec![];
        for i in 0..objs.len() {
            for j in (i + 1)..objs.len() {
                let share = objs[i].namespaces().iter().any(|a| objs[j].namespaces().contains(a));
                if share && objs[i] != objs[j] && objs[i].name() == objs[j].name() {
                    coll.push(json!({"a": format!("{:?}", objs[i]), "b": format!("{:?}", objs[j]), "name": objs[i].name()}));
                    pairs.push(format!("({}, {})", objs[i].gs(), objs[j].gs()));
                }
            }
        }
        let _ = writeln!(side, "{}", json!({"set": si, "n_objects": objs.len(), "collisions": coll, "models": m}));
    }
    std::fs::write(outdir.join("names.jsonl"), side).unwrap();
    let tail2 = "Definition explained := map (fun p : named_object * named_object => (same_namespace (fst p) (snd p) && String.eqb (object_name (fst p)) (object_name (snd p)))%bool) cases.\nEval vm_compute in explained.\n";
    if pairs.is_empty() {
        pairs.push("(OTable \"\", OTable \"\")".to_string()); // placeholder so that the shard exists; not a collision (equal descriptors)
    }
    vcommon::write_shards(&outdir, "pairs_names", header, "(named_object * named_object)", &pairs, 100000, tail2).unwrap();
    println!("name cases={} model sets={} colliding pairs={}", n, sets, pairs.len());
}


// ------------------------------------------------------------------------------------------ C08: the real loader
/// Store each history in two directories whose enumeration orders differ (file names in reverse
/// lexicographic order of the versions, created in reverse order), load them with the real
/// `vespertide_loader::load_migrations`, and print (plans in read_dir order, versions the loader returned).
fn loader_cases(outdir: &std::path::Path, rng: &mut Rng, histories: &[Vec<MigrationPlan>]) {
    use vespertide_config::VespertideConfig;
    let base = outdir.join("loaddirs");
    let _ = std::fs::remove_dir_all(&base);
    let mut cases = vec![];
    let mut side = String::new();
    for (hi, h) in histories.iter().enumerate() {
        // drop plans the loader itself would reject (validate_migration_plan), they are C12's subject
        let h: Vec<&MigrationPlan> = h.iter().filter(|p| validate_migration_plan(p).is_ok()).collect();
        if h.len() < 2 {
            continue;
        }
        let mut results: Vec<Vec<u32>> = vec![];
        let mut results_macro: Vec<Vec<u32>> = vec![];
        for variant in 0..2 {
            // <root>/migrations is the default migrations directory of a project rooted at <root>
            let root = base.join(format!("h{}_{}", hi, variant));
            let dir = root.join("migrations");
            std::fs::create_dir_all(&dir).unwrap();
            let mut order: Vec<usize> = (0..h.len()).collect();
            if variant == 1 {
                order.reverse();
            } else {
                rng.shuffle(&mut order);
            }
            for &i in &order {
                let name = if variant == 1 {
                    format!("{:04}_m.json", 9999 - h[i].version)
                } else {
                    format!("{}_{:04}.json", ["zz", "aa", "mm"][i % 3], h[i].version)
                };
                std::fs::write(dir.join(name), serde_json::to_string(h[i]).unwrap()).unwrap();
            }
            let mut cfg = VespertideConfig::default();
            cfg.migrations_dir = dir.clone();
            let in_dir_order: Vec<MigrationPlan> = std::fs::read_dir(&dir)
                .unwrap()
                .filter_map(|e| e.ok())
                .filter_map(|e| std::fs::read_to_string(e.path()).ok())
                .filter_map(|t| serde_json::from_str::<MigrationPlan>(&t).ok())
                .collect();
            match vespertide_loader::load_migrations(&cfg) {
                Ok(loaded) => {
                    let versions: Vec<u32> = loaded.iter().map(|p| p.version).collect();
                    let dir_versions: Vec<u32> = in_dir_order.iter().map(|p| p.version).collect();
                    cases.push(format!("({}, {})", dir_versions.gs(), versions.gs()));
                    results.push(versions);
                }
                Err(e) => {
                    let _ = writeln!(side, "{}", json!({"history": hi, "variant": variant, "error": e.to_string()}));
                }
            }
            // the compile-time loader of vespertide_migration! (migrations.rs load_migrations_from_dir): same files, project root given
            match vespertide_loader::load_migrations_from_dir(Some(root.clone())) {
                Ok(loaded) => {
                    let versions: Vec<u32> = loaded.iter().map(|p| p.version).collect();
                    let dir_versions: Vec<u32> = in_dir_order.iter().map(|p| p.version).collect();
                    cases.push(format!("({}, {})", dir_versions.gs(), versions.gs()));
                    results_macro.push(versions);
                }
                Err(e) => {
                    let _ = writeln!(side, "{}", json!({"history": hi, "variant": variant, "macro_error": e.to_string()}));
                }
            }
        }
        let asc = |rs: &Vec<Vec<u32>>| rs.iter().all(|v| v.windows(2).all(|w| w[0] < w[1]));
        let ascending = asc(&results);
        let same = results.len() == 2 && results[0] == results[1];
        let ascending_macro = asc(&results_macro);
        let same_macro = results_macro.len() == 2 && results_macro[0] == results_macro[1] && (results.is_empty() || results_macro[0] == results[0]);
        let _ = writeln!(side, "{}", json!({"history": hi, "n": h.len(), "ok": ascending && same, "ascending": ascending, "same": same, "loaded": results,
            "ok_macro": ascending_macro && same_macro, "loaded_macro": results_macro,
            "plans": h.iter().map(|p| plan_json(p)).collect::<Vec<_>>()}));
    }
    let _ = std::fs::remove_dir_all(&base);
    std::fs::write(outdir.join("load.jsonl"), side).unwrap();
    if cases.is_empty() {
        cases.push("([], [])".to_string());
    }
    let header = "From VV.M1 Require Import Validate.\n";
    let tail = "Definition vsort (l : list N) : list N := map p_version (sort_plans (map (fun v => mkPlan \"\" None None v []) l)).\nDefinition bad := flat_map (fun c : list N * list N => if dec_b (list_eq_dec N.eq_dec) (vsort (fst c)) (snd c) then [] else [1%nat]) cases.\nEval vm_compute in List.length bad.\n";
    vcommon::write_shards(outdir, "cases_load", header, "(list N * list N)", &cases, 100000, tail).unwrap();
}
