//! Shared pieces of the correspondence harness: one PRNG, Gallina term printers for the
//! vespertide-core types, structured generators, error-kind mappers.
pub mod gallina;
pub mod fill;
pub mod gener;
pub mod kinds;
pub mod rng;

pub use gallina::G;
pub use rng::Rng;

use std::fmt::Write;

/// Write `cases_<shard>.v` files: each holds `Definition cases : list T := [...]` followed by the
/// evaluation commands in `tail`.
pub fn write_shards(
    dir: &std::path::Path,
    stem: &str,
    header: &str,
    ty: &str,
    cases: &[String],
    per_shard: usize,
    tail: &str,
) -> std::io::Result<Vec<String>> {
    std::fs::create_dir_all(dir)?;
    let mut names = Vec::new();
    for (si, chunk) in cases.chunks(per_shard.max(1)).enumerate() {
        let mut s = String::new();
        s.push_str(header);
        let _ = write!(s, "\nDefinition shard_base : nat := {}.\n", si * per_shard);
        let _ = write!(s, "Definition cases : list {} := [\n", ty);
        for (i, c) in chunk.iter().enumerate() {
            if i > 0 {
                s.push_str(";\n");
            }
            s.push_str(c);
        }
        s.push_str("\n].\n");
        s.push_str(tail);
        let name = format!("{}_{:03}.v", stem, si);
        std::fs::write(dir.join(&name), s)?;
        names.push(name);
    }
    Ok(names)
}
