//! Error values of the implementation rendered as the Gallina error kinds of the model
//! (messages are never compared, only kind and the identifying fields).
use crate::gallina::{G, app};
use vespertide_core::TableValidationError;
use vespertide_planner::PlannerError;

pub struct TErr<'a>(pub &'a TableValidationError);
impl G for TErr<'_> {
    fn g(&self, o: &mut String) {
        match self.0 {
            TableValidationError::DuplicateIndexColumn {
                index_name,
                column_name,
            } => app(o, "DuplicateIndexColumn", &[index_name, column_name]),
            TableValidationError::InvalidForeignKeyFormat { column_name, value } => {
                app(o, "InvalidForeignKeyFormat", &[column_name, value])
            }
        }
    }
}

pub struct PErr<'a>(pub &'a PlannerError);
impl G for PErr<'_> {
    fn g(&self, o: &mut String) {
        use PlannerError::*;
        match self.0 {
            TableExists(t) => app(o, "EkTableExists", &[t]),
            TableNotFound(t) => app(o, "EkTableNotFound", &[t]),
            ColumnExists(t, c) => app(o, "EkColumnExists", &[t, c]),
            ColumnNotFound(t, c) => app(o, "EkColumnNotFound", &[t, c]),
            TableValidation(_) => o.push_str("EkTableValidation"),
            IndexNotFound(..) => app(o, "EkOther", &[&"IndexNotFound".to_string()]),
            other => {
                o.push_str("(EkV ");
                VErr(other).g(o);
                o.push(')');
            }
        }
    }
}

/// validate_* errors
pub struct VErr<'a>(pub &'a PlannerError);
impl G for VErr<'_> {
    fn g(&self, o: &mut String) {
        use PlannerError::*;
        match self.0 {
            DuplicateTableName(t) => app(o, "VDuplicateTableName", &[t]),
            ForeignKeyTableNotFound(t, _, rt) => app(o, "VForeignKeyTableNotFound", &[t, rt]),
            ForeignKeyColumnNotFound(t, _, rt, rc) => {
                app(o, "VForeignKeyColumnNotFound", &[t, rt, rc])
            }
            IndexColumnNotFound(t, _, c) => app(o, "VIndexColumnNotFound", &[t, c]),
            ConstraintColumnNotFound(t, k, c) => app(o, "VConstraintColumnNotFound", &[t, k, c]),
            EmptyConstraintColumns(t, k) => {
                let k = if k.starts_with("Index(") {
                    "Index".to_string()
                } else {
                    k.clone()
                };
                app(o, "VEmptyConstraintColumns", &[t, &k])
            }
            MissingFillWith(t, c) => app(o, "VMissingFillWith", &[t, c]),
            MissingPrimaryKey(t) => app(o, "VMissingPrimaryKey", &[t]),
            DuplicateEnumVariantName(_, t, c, v) => app(o, "VDuplicateEnumVariantName", &[t, c, v]),
            DuplicateEnumValue(_, t, c, v) => app(o, "VDuplicateEnumValue", &[t, c, v]),
            InvalidEnumDefault(b) => app(
                o,
                "VInvalidEnumDefault",
                &[&b.table_name, &b.column_name, &b.value],
            ),
            InvalidAutoIncrement(t, c, _) => app(o, "VInvalidAutoIncrement", &[t, c]),
            other => app(o, "VUnexpected", &[&format!("{:?}", other)]),
        }
    }
}
