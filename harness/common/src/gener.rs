//! Structured generators (DESIGN.md §4.3): model sets, evolutions, hand-extended histories,
//! a malformed stream. Every choice comes from the one `Rng`.
use crate::rng::Rng;
use vespertide_core::schema::foreign_key::{ForeignKeyDef, ForeignKeySyntax, ReferenceSyntaxDef};
use vespertide_core::schema::primary_key::{PrimaryKeyDef, PrimaryKeySyntax};
use vespertide_core::*;

pub const TABLE_POOL: &[&str] = &[
    "user", "post", "a", "b", "a_b", "order", "item", "tag", "post_tag", "t1", "app_user", "app_", "User", "orderItem", "item_temp",
];
pub const COL_POOL: &[&str] = &[
    "a", "b", "a_b", "user_id", "post_id", "name", "status", "user", "email", "created_at", "kind",
    "c", "b_c", "type", "order", "Name", "userId",
];
pub const NAME_POOL: &[&str] = &["k1", "k2", "a", "a_b", "main", "b"];

#[derive(Clone, Copy, PartialEq, Eq)]
pub enum Profile {
    /// satisfies the engine sanity assumptions A1–A7 (ASCII identifiers, FK targets are keys…)
    Engine,
    /// anything the loader accepts, including odd names and non-ASCII text
    Loader,
}

pub fn simple_types() -> Vec<SimpleColumnType> {
    use SimpleColumnType::*;
    vec![
        SmallInt, Integer, BigInt, Real, DoublePrecision, Text, Boolean, Date, Time, Timestamp,
        Timestamptz, Interval, Bytea, Uuid, Json, Inet, Cidr, Macaddr, Xml,
    ]
}

pub fn gen_enum(rng: &mut Rng, profile: Profile) -> ColumnType {
    let names = ["status", "kind", "level", "Status"];
    let pool: &[&str] = if profile == Profile::Loader && rng.chance(1, 4) {
        &["활성", "in active", "O'Neil", "a-b", "a_b", ""]
    } else {
        &["active", "inactive", "pending", "done", "a_b", "b"]
    };
    let n = rng.range(1, 4);
    let mut labels: Vec<String> = Vec::new();
    let mut p: Vec<&str> = pool.to_vec();
    rng.shuffle(&mut p);
    for l in p.into_iter().take(n) {
        labels.push(l.to_string());
    }
    let name = rng.pick(&names).to_string();
    if rng.chance(1, 3) {
        let mut vals = Vec::new();
        for (i, l) in labels.iter().enumerate() {
            vals.push(NumValue {
                name: l.clone(),
                value: (i as i32) * if rng.chance(1, 5) { 10 } else { 1 } + if rng.chance(1, 6) { -3 } else { 0 },
            });
        }
        // keep integer values distinct
        let mut seen = std::collections::HashSet::new();
        vals.retain(|v| seen.insert(v.value));
        ColumnType::Complex(ComplexColumnType::Enum {
            name,
            values: EnumValues::Integer(vals),
        })
    } else {
        ColumnType::Complex(ComplexColumnType::Enum {
            name,
            values: EnumValues::String(labels),
        })
    }
}

pub fn gen_type(rng: &mut Rng, profile: Profile) -> ColumnType {
    match rng.below(10) {
        0..=4 => ColumnType::Simple(rng.pick(&simple_types()).clone()),
        5 => ColumnType::Complex(ComplexColumnType::Varchar {
            length: *rng.pick(&[1u32, 32, 255]),
        }),
        6 => ColumnType::Complex(ComplexColumnType::Numeric {
            precision: *rng.pick(&[10u32, 18]),
            scale: *rng.pick(&[0u32, 2]),
        }),
        7 => ColumnType::Complex(ComplexColumnType::Char {
            length: *rng.pick(&[1u32, 8]),
        }),
        8 => {
            if profile == Profile::Loader {
                ColumnType::Complex(ComplexColumnType::Custom {
                    custom_type: rng.pick(&["CITEXT", "tsvector", "money"]).to_string(),
                })
            } else {
                ColumnType::Simple(SimpleColumnType::Text)
            }
        }
        _ => gen_enum(rng, profile),
    }
}

pub fn enum_labels(t: &ColumnType) -> Option<Vec<String>> {
    t.enum_variant_names()
}

pub fn gen_default(rng: &mut Rng, t: &ColumnType, profile: Profile) -> Option<DefaultValue> {
    if !rng.chance(1, 3) {
        return None;
    }
    if let Some(labels) = enum_labels(t) {
        if labels.is_empty() {
            return None;
        }
        let l = rng.pick(&labels).clone();
        if profile == Profile::Engine && (l.contains('\'') || l.is_empty()) {
            return None;
        }
        if profile == Profile::Loader && rng.chance(1, 6) {
            return Some(DefaultValue::String(format!("\u{85}\u{a0}'{}'\u{3000}", l)));
        }
        return Some(match rng.below(3) {
            0 => DefaultValue::String(format!("'{}'", l)),
            1 => DefaultValue::String(l),
            _ => DefaultValue::String(format!(" '{}' ", l)),
        });
    }
    use SimpleColumnType::*;
    Some(match t {
        ColumnType::Simple(SmallInt | Integer | BigInt) => match rng.below(3) {
            0 => DefaultValue::Integer(*rng.pick(&[0i64, 1, -5, 42])),
            1 => DefaultValue::String(rng.pick(&["0", "1", "42"]).to_string()),
            _ => DefaultValue::Integer(7),
        },
        ColumnType::Simple(Real | DoublePrecision) => match rng.below(3) {
            0 => DefaultValue::Float(*rng.pick(&[0.5f64, 1.0, -2.25, 1e21])),
            1 => DefaultValue::String("0.5".into()),
            _ => DefaultValue::Integer(1),
        },
        ColumnType::Simple(Boolean) => match rng.below(3) {
            0 => DefaultValue::Bool(rng.chance(1, 2)),
            1 => DefaultValue::String(rng.pick(&["true", "false"]).to_string()),
            _ => DefaultValue::Bool(true),
        },
        ColumnType::Simple(Timestamp | Timestamptz) => {
            DefaultValue::String(rng.pick(&["CURRENT_TIMESTAMP", "now()"]).to_string())
        }
        ColumnType::Simple(Text) | ColumnType::Complex(ComplexColumnType::Varchar { .. }) => {
            match rng.below(if profile == Profile::Loader { 5 } else { 4 }) {
                4 => DefaultValue::String(rng.pick(&["\u{85}'x'\u{3000}", "\u{a0}", "\u{2003}now()\u{2028}"]).to_string()),
                0 => DefaultValue::String("".into()),
                1 => DefaultValue::String("'x'".into()),
                2 => DefaultValue::String("'hello world'".into()),
                _ => DefaultValue::String(if profile == Profile::Loader { "'안녕'".into() } else { "'abc'".into() }),
            }
        }
        ColumnType::Complex(ComplexColumnType::Numeric { .. }) => DefaultValue::Integer(0),
        _ => return None,
    })
}

pub fn col(name: &str, t: ColumnType, nullable: bool) -> ColumnDef {
    ColumnDef {
        name: name.to_string(),
        r#type: t,
        nullable,
        default: None,
        comment: None,
        primary_key: None,
        unique: None,
        index: None,
        foreign_key: None,
    }
}

fn int_type(rng: &mut Rng) -> ColumnType {
    ColumnType::Simple(rng.pick(&[SimpleColumnType::Integer, SimpleColumnType::BigInt, SimpleColumnType::Integer]).clone())
}

/// primary-key columns of a table after normalisation (first PK constraint)
pub fn pk_columns(t: &TableDef) -> Vec<String> {
    if let Ok(n) = t.normalize() {
        for c in &n.constraints {
            if let TableConstraint::PrimaryKey { columns, .. } = c {
                return columns.clone();
            }
        }
    }
    vec![]
}

fn find_col<'a>(t: &'a TableDef, n: &str) -> Option<&'a ColumnDef> {
    t.columns.iter().find(|c| c.name == n)
}

pub fn ref_actions() -> Vec<ReferenceAction> {
    vec![
        ReferenceAction::Cascade,
        ReferenceAction::Restrict,
        ReferenceAction::SetNull,
        ReferenceAction::SetDefault,
        ReferenceAction::NoAction,
    ]
}

/// Add a foreign key from column `cname` of `t` to the single-column PK of `target`, in a random spelling.
pub fn add_fk(rng: &mut Rng, t: &mut TableDef, cname: &str, target: &str, rcol: &str) {
    let od = if rng.chance(1, 2) { Some(rng.pick(&ref_actions()).clone()) } else { None };
    let ou = if rng.chance(1, 4) { Some(rng.pick(&ref_actions()).clone()) } else { None };
    let idx = t.columns.iter().position(|c| c.name == cname).unwrap();
    match rng.below(5) {
        0 if od.is_none() && ou.is_none() => {
            t.columns[idx].foreign_key = Some(ForeignKeySyntax::String(format!("{}.{}", target, rcol)));
        }
        1 => {
            t.columns[idx].foreign_key = Some(ForeignKeySyntax::Reference(ReferenceSyntaxDef {
                references: format!("{}.{}", target, rcol),
                on_delete: od,
                on_update: ou,
            }));
        }
        2 => {
            t.columns[idx].foreign_key = Some(ForeignKeySyntax::Object(ForeignKeyDef {
                ref_table: target.to_string(),
                ref_columns: vec![rcol.to_string()],
                on_delete: od,
                on_update: ou,
            }));
        }
        _ => {
            t.constraints.push(TableConstraint::ForeignKey {
                name: if rng.chance(1, 4) { Some(rng.pick(NAME_POOL).to_string()) } else { None },
                columns: vec![cname.to_string()],
                ref_table: target.to_string(),
                ref_columns: vec![rcol.to_string()],
                on_delete: od,
                on_update: ou,
            });
        }
    }
}

/// Add a unique/index over `cols` in a random spelling.
pub fn add_key(rng: &mut Rng, t: &mut TableDef, cols: &[String], unique: bool) {
    let named = rng.chance(1, 3);
    let name = rng.pick(NAME_POOL).to_string();
    let inline = rng.chance(1, 2);
    let set = |c: &mut ColumnDef, v: StrOrBoolOrArray| {
        if unique { c.unique = Some(v) } else { c.index = Some(v) }
    };
    let get = |c: &ColumnDef| if unique { c.unique.clone() } else { c.index.clone() };
    if inline && (cols.len() == 1 || named) {
        // inline spelling (multi-column groups need a name)
        for cn in cols {
            let idx = t.columns.iter().position(|c| &c.name == cn).unwrap();
            let cur = get(&t.columns[idx]);
            let v = match (cur, named) {
                (None, false) => StrOrBoolOrArray::Bool(true),
                (None, true) => {
                    match rng.below(4) {
                        0 => StrOrBoolOrArray::Array(vec![name.clone()]),
                        1 => {
                            // several names at once: the column joins (or founds) several groups
                            let mut l = vec![name.clone()];
                            for extra in NAME_POOL {
                                if *extra != name && rng.chance(1, 3) {
                                    l.push(extra.to_string());
                                }
                            }
                            StrOrBoolOrArray::Array(l)
                        }
                        _ => StrOrBoolOrArray::Str(name.clone()),
                    }
                }
                (Some(StrOrBoolOrArray::Str(s)), true) if s != name => StrOrBoolOrArray::Array(vec![s, name.clone()]),
                (Some(StrOrBoolOrArray::Array(mut l)), true) if !l.contains(&name) => {
                    l.push(name.clone());
                    StrOrBoolOrArray::Array(l)
                }
                (Some(x), _) => x,
            };
            set(&mut t.columns[idx], v);
        }
    } else {
        let n = if named { Some(name) } else { None };
        let c = if unique {
            TableConstraint::Unique { name: n, columns: cols.to_vec() }
        } else {
            TableConstraint::Index { name: n, columns: cols.to_vec() }
        };
        t.constraints.push(c);
    }
}

pub fn gen_table(rng: &mut Rng, name: &str, others: &[TableDef], profile: Profile) -> TableDef {
    let mut t = TableDef {
        name: name.to_string(),
        description: if rng.chance(1, 8) { Some("desc".into()) } else { None },
        columns: vec![],
        constraints: vec![],
    };
    // primary key
    let composite = rng.chance(1, 6);
    let auto = !composite && rng.chance(1, 2);
    let pk_names: Vec<String> = if composite {
        vec!["id".into(), "part".into()]
    } else {
        vec![rng.pick(&["id", "id", "id", "idx", "pk"]).to_string()]
    };
    for n in &pk_names {
        let ty = if composite && rng.chance(1, 3) { ColumnType::Simple(SimpleColumnType::Uuid) } else { int_type(rng) };
        t.columns.push(col(n, ty, false));
    }
    // loader profile: a composite inline key whose members carry DIFFERENT object-syntax flags
    // (the flag of the whole key is the OR of the members'), on integer columns only
    let mixed_flags = composite && profile == Profile::Loader && rng.chance(2, 3)
        && t.columns.iter().all(|c| c.r#type.supports_auto_increment());
    match if mixed_flags { 0 } else { rng.below(3) } {
        0 if mixed_flags => {
            let k = rng.below(pk_names.len());
            for (i, n) in pk_names.iter().enumerate() {
                let idx = t.columns.iter().position(|c| &c.name == n).unwrap();
                t.columns[idx].primary_key = Some(PrimaryKeySyntax::Object(PrimaryKeyDef { auto_increment: i == k }));
            }
        }
        0 => {
            for n in &pk_names {
                let idx = t.columns.iter().position(|c| &c.name == n).unwrap();
                t.columns[idx].primary_key = Some(if auto {
                    PrimaryKeySyntax::Object(PrimaryKeyDef { auto_increment: true })
                } else if rng.chance(1, 4) {
                    PrimaryKeySyntax::Object(PrimaryKeyDef { auto_increment: false })
                } else {
                    PrimaryKeySyntax::Bool(true)
                });
            }
        }
        _ => t.constraints.push(TableConstraint::PrimaryKey {
            auto_increment: auto,
            columns: pk_names.clone(),
        }),
    }
    // ordinary columns
    let ncols = rng.range(0, 5);
    let mut pool: Vec<&str> = COL_POOL.to_vec();
    rng.shuffle(&mut pool);
    for cn in pool.into_iter().take(ncols) {
        if t.columns.iter().any(|c| c.name == cn) {
            continue;
        }
        let ty = gen_type(rng, profile);
        let mut c = col(cn, ty.clone(), rng.chance(1, 2));
        c.default = gen_default(rng, &ty, profile);
        if profile == Profile::Loader && c.nullable && enum_labels(&ty).is_none() && rng.chance(1, 10) {
            // the explicit NULL literal in its spellings: a default like any other for the planner (compared as SQL text)
            c.default = Some(DefaultValue::String(rng.pick(&["NULL", "null", " Null "]).to_string()));
        }
        if rng.chance(1, 6) {
            c.comment = Some(if profile == Profile::Loader && rng.chance(1, 3) {
                "주석 'quoted' text that is rather long, longer than thirty chars".into()
            } else {
                "a comment".into()
            });
        }
        t.columns.push(c);
    }
    // foreign keys to other tables' single-column PKs
    if !others.is_empty() {
        let nfk = rng.below(3);
        for _ in 0..nfk {
            let target = rng.pick(others).clone();
            let tpk = pk_columns(&target);
            if tpk.len() != 1 {
                continue;
            }
            let rty = find_col(&target, &tpk[0]).map(|c| c.r#type.clone()).unwrap_or(ColumnType::Simple(SimpleColumnType::Integer));
            let mut cname = format!("{}_{}", target.name, tpk[0]);
            if rng.chance(1, 4) {
                cname = format!("{}_{}", rng.pick(&["owner", "author", "parent"]), cname);
            }
            if rng.chance(1, 6) {
                cname = format!("{}_id", rng.pick(&["owner", "author"]));
            }
            if t.columns.iter().any(|c| c.name == cname) {
                continue;
            }
            t.columns.push(col(&cname, rty, rng.chance(2, 3)));
            add_fk(rng, &mut t, &cname, &target.name, &tpk[0]);
        }
    }
    // two foreign keys to the same parent (e.g. from_account / to_account)
    if !others.is_empty() && rng.chance(1, 5) {
        let target = rng.pick(others).clone();
        let tpk = pk_columns(&target);
        if tpk.len() == 1 {
            if let Some(rty) = find_col(&target, &tpk[0]).map(|c| c.r#type.clone()) {
                for pre in ["from", "to"] {
                    let cname = format!("{}_{}_{}", pre, target.name, tpk[0]);
                    if !t.columns.iter().any(|c| c.name == cname) {
                        t.columns.push(col(&cname, rty.clone(), true));
                        add_fk(rng, &mut t, &cname, &target.name, &tpk[0]);
                    }
                }
            }
        }
    }
    // composite foreign key to a composite primary key, sometimes with an inline FK on one member as well
    if !others.is_empty() && rng.chance(1, 4) {
        if let Some(target) = others.iter().find(|o| pk_columns(o).len() == 2) {
            let tpk = pk_columns(target);
            let mut cols = vec![];
            for rc in &tpk {
                let cname = format!("{}_{}", target.name, rc);
                if !t.columns.iter().any(|c| c.name == cname) {
                    if let Some(rty) = find_col(target, rc).map(|c| c.r#type.clone()) {
                        t.columns.push(col(&cname, rty, true));
                    }
                }
                cols.push(cname);
            }
            if cols.iter().all(|c| t.columns.iter().any(|x| &x.name == c)) {
                t.constraints.push(TableConstraint::ForeignKey {
                    name: if rng.chance(1, 3) { Some("cfk".into()) } else { None },
                    columns: cols.clone(),
                    ref_table: target.name.clone(),
                    ref_columns: tpk.clone(),
                    on_delete: None,
                    on_update: None,
                });
                if rng.chance(1, 2) && !others.is_empty() {
                    // an additional single-column FK declared inline on a member of the composite one
                    let o2 = rng.pick(others).clone();
                    let o2pk = pk_columns(&o2);
                    if o2pk.len() == 1 {
                        let idx = t.columns.iter().position(|c| c.name == cols[0]).unwrap();
                        if t.columns[idx].foreign_key.is_none() {
                            t.columns[idx].foreign_key = Some(ForeignKeySyntax::String(format!("{}.{}", o2.name, o2pk[0])));
                        }
                    }
                }
            }
        }
    }
    // self reference
    if rng.chance(1, 10) && pk_names.len() == 1 && !t.columns.iter().any(|c| c.name == "parent_id") {
        let rty = t.columns[0].r#type.clone();
        t.columns.push(col("parent_id", rty, true));
        let n = t.name.clone();
        add_fk(rng, &mut t, "parent_id", &n, &pk_names[0]);
    }
    // uniques / indexes
    let nonpk: Vec<String> = t.columns.iter().map(|c| c.name.clone()).filter(|n| !pk_names.contains(n)).collect();
    if !nonpk.is_empty() {
        for _ in 0..rng.below(3) {
            let k = rng.range(1, nonpk.len().min(3));
            let mut p = nonpk.clone();
            rng.shuffle(&mut p);
            let cols: Vec<String> = p.into_iter().take(k).collect();
            let uniq = rng.chance(1, 2);
            add_key(rng, &mut t, &cols, uniq);
        }
    }
    // check constraint
    if rng.chance(1, 5) {
        let cn = t.columns[0].name.clone();
        t.constraints.push(TableConstraint::Check {
            name: rng.pick(&["chk_pos", "ck1"]).to_string(),
            expr: format!("{} > 0", cn),
        });
    }
    t
}

pub fn loader_accepts(models: &[TableDef]) -> bool {
    let mut n = Vec::new();
    for t in models {
        match t.normalize() {
            Ok(x) => n.push(x),
            Err(_) => return false,
        }
    }
    models.is_empty() || vespertide_planner::validate_schema(&n).is_ok()
}

pub fn gen_models(rng: &mut Rng, profile: Profile) -> Vec<TableDef> {
    for _ in 0..50 {
        let nt = rng.range(1, 4);
        let mut pool: Vec<&str> = TABLE_POOL.to_vec();
        if profile == Profile::Engine {
            pool.retain(|n| *n != "User" && *n != "orderItem");
        }
        rng.shuffle(&mut pool);
        let mut out: Vec<TableDef> = Vec::new();
        for n in pool.into_iter().take(nt) {
            let t = gen_table(rng, n, &out, profile);
            out.push(t);
        }
        if rng.chance(1, 3) {
            rng.shuffle(&mut out);
        }
        if loader_accepts(&out) {
            return out;
        }
    }
    vec![]
}

/// One random edit of a model set. Returns a description tag.
pub fn edit_models(rng: &mut Rng, m: &mut Vec<TableDef>, profile: Profile) -> &'static str {
    if m.is_empty() {
        let t = gen_table(rng, "user", &[], profile);
        m.push(t);
        return "add_table";
    }
    let ti = rng.below(m.len());
    if rng.chance(1, 14) {
        // a big step: many columns with their own indexes on one existing table plus new tables in the same plan,
        // so that the plan has well over 20 actions with CreateTable actions that are not at the front before sorting
        let n = rng.range(9, 14);
        for i in 0..n {
            let cn = format!("c{:02}", i);
            if m[ti].columns.iter().any(|c| c.name == cn) {
                continue;
            }
            let ty = gen_type(rng, profile);
            let mut c = col(&cn, ty.clone(), true);
            c.default = gen_default(rng, &ty, profile);
            m[ti].columns.push(c);
            if rng.chance(3, 4) {
                let u = rng.chance(1, 3);
                add_key(rng, &mut m[ti], &[cn], u);
            }
        }
        for _ in 0..rng.range(1, 2) {
            let mut pool: Vec<&str> = TABLE_POOL.to_vec();
            rng.shuffle(&mut pool);
            for n in pool {
                if !m.iter().any(|t| t.name == n) {
                    let t = gen_table(rng, n, m, profile);
                    m.push(t);
                    break;
                }
            }
        }
        return "big_step";
    }
    match rng.below(26) {
        0 => {
            // add table
            let mut pool: Vec<&str> = TABLE_POOL.to_vec();
            rng.shuffle(&mut pool);
            for n in pool {
                if !m.iter().any(|t| t.name == n) {
                    let t = gen_table(rng, n, m, profile);
                    m.push(t);
                    break;
                }
            }
            "add_table"
        }
        1 if rng.chance(1, 3) => {
            // drop a table together with every table that references it
            let name = m[ti].name.clone();
            let refs: Vec<String> = m.iter().filter(|t| t.normalize().map(|n| n.constraints.iter().any(|c| matches!(c, TableConstraint::ForeignKey { ref_table, .. } if *ref_table == name))).unwrap_or(false)).map(|t| t.name.clone()).collect();
            m.retain(|t| t.name != name && !refs.contains(&t.name));
            "drop_table_family"
        }
        1 => {
            // drop table (and, mostly, the FKs that point at it)
            let name = m[ti].name.clone();
            m.remove(ti);
            if rng.chance(5, 6) {
                for t in m.iter_mut() {
                    let mut dropped_cols = vec![];
                    t.constraints.retain(|c| match c {
                        TableConstraint::ForeignKey { ref_table, columns, .. } if *ref_table == name => {
                            dropped_cols.extend(columns.clone());
                            false
                        }
                        _ => true,
                    });
                    for c in t.columns.iter_mut() {
                        let hit = match &c.foreign_key {
                            Some(ForeignKeySyntax::String(s)) => s.starts_with(&format!("{}.", name)),
                            Some(ForeignKeySyntax::Reference(r)) => r.references.starts_with(&format!("{}.", name)),
                            Some(ForeignKeySyntax::Object(o)) => o.ref_table == name,
                            None => false,
                        };
                        if hit {
                            c.foreign_key = None;
                        }
                    }
                    let _ = dropped_cols;
                }
            }
            "drop_table"
        }
        2 | 3 => {
            // add column
            let t = &mut m[ti];
            let cn = rng.pick(COL_POOL).to_string();
            if t.columns.iter().any(|c| c.name == cn) {
                return "noop";
            }
            let ty = gen_type(rng, profile);
            let mut c = col(&cn, ty.clone(), rng.chance(2, 3));
            c.default = gen_default(rng, &ty, profile);
            t.columns.push(c);
            if rng.chance(1, 3) {
                let u = rng.chance(1, 2);
                add_key(rng, t, &[cn], u);
            }
            "add_column"
        }
        4 | 5 => {
            // drop column; constraints that mention it are shrunk, removed or (rarely) left alone
            let t = &mut m[ti];
            if t.columns.len() <= 1 {
                return "noop";
            }
            let ci = rng.below(t.columns.len());
            let cn = t.columns[ci].name.clone();
            t.columns.remove(ci);
            let mode = rng.below(5);
            if mode < 2 {
                // shrink
                let mut out = vec![];
                for c in t.constraints.drain(..) {
                    out.push(match c {
                        TableConstraint::PrimaryKey { auto_increment, mut columns } => {
                            columns.retain(|x| *x != cn);
                            TableConstraint::PrimaryKey { auto_increment, columns }
                        }
                        TableConstraint::Unique { name, mut columns } => {
                            columns.retain(|x| *x != cn);
                            TableConstraint::Unique { name, columns }
                        }
                        TableConstraint::Index { name, mut columns } => {
                            columns.retain(|x| *x != cn);
                            TableConstraint::Index { name, columns }
                        }
                        other => other,
                    });
                }
                out.retain(|c| match c {
                    TableConstraint::ForeignKey { columns, .. } => !columns.contains(&cn),
                    TableConstraint::Check { .. } => true,
                    other => !other.columns().is_empty(),
                });
                t.constraints = out;
            } else if mode < 4 {
                t.constraints.retain(|c| !c.columns().contains(&cn));
            }
            // inline named groups of other columns survive as they are
            "drop_column"
        }
        6 => {
            let t = &mut m[ti];
            let ci = rng.below(t.columns.len());
            let nt = gen_type(rng, profile);
            t.columns[ci].r#type = nt.clone();
            // A4: a default must stay a valid literal for the column's type; only the loader profile keeps stale ones
            if profile == Profile::Engine || rng.chance(1, 2) {
                t.columns[ci].default = gen_default(rng, &nt, profile);
            }
            "retype"
        }
        7 => {
            let t = &mut m[ti];
            let ci = rng.below(t.columns.len());
            t.columns[ci].nullable = !t.columns[ci].nullable;
            "renull"
        }
        8 => {
            let t = &mut m[ti];
            let ci = rng.below(t.columns.len());
            let ty = t.columns[ci].r#type.clone();
            t.columns[ci].default = if rng.chance(1, 3) { None } else { gen_default(rng, &ty, profile) };
            "redefault"
        }
        9 => {
            let t = &mut m[ti];
            let ci = rng.below(t.columns.len());
            // the empty string is a comment like any other for the planner (Some("") != None): only in the loader profile, the SQL
            // layers' engines treat '' as "no comment"
            t.columns[ci].comment = if rng.chance(1, 3) { None } else if profile == Profile::Loader && rng.chance(1, 4) { Some(String::new()) } else { Some(rng.pick(&["c1", "a comment", "new"]).to_string()) };
            "recomment"
        }
        10 | 11 => {
            // add constraint
            let t = &mut m[ti];
            let names: Vec<String> = t.columns.iter().map(|c| c.name.clone()).collect();
            let k = rng.range(1, names.len().min(2));
            let mut p = names;
            rng.shuffle(&mut p);
            let cols: Vec<String> = p.into_iter().take(k).collect();
            let u = rng.chance(1, 2);
            add_key(rng, t, &cols, u);
            "add_key"
        }
        12 => {
            // drop a constraint (table level or inline)
            let t = &mut m[ti];
            if !t.constraints.is_empty() && rng.chance(2, 3) {
                let i = rng.below(t.constraints.len());
                if !matches!(t.constraints[i], TableConstraint::PrimaryKey { .. }) || rng.chance(1, 4) {
                    t.constraints.remove(i);
                }
            } else {
                let ci = rng.below(t.columns.len());
                match rng.below(3) {
                    0 => t.columns[ci].unique = None,
                    1 => t.columns[ci].index = None,
                    _ => t.columns[ci].foreign_key = None,
                }
            }
            "drop_key"
        }
        13 => {
            // enum label edits
            let t = &mut m[ti];
            for c in t.columns.iter_mut() {
                if let ColumnType::Complex(ComplexColumnType::Enum { values, name: _ }) = &mut c.r#type {
                    if rng.chance(1, 4) {
                        // flip the enum's kind keeping the same labels in the same order (string <-> integer)
                        *values = match values.clone() {
                            EnumValues::String(l) => EnumValues::Integer(l.iter().enumerate().map(|(i, n)| NumValue { name: n.clone(), value: i as i32 }).collect()),
                            EnumValues::Integer(l) => EnumValues::String(l.iter().map(|v| v.name.clone()).collect()),
                        };
                        c.default = None;
                        return "enum_kind_flip";
                    }
                }
                if let ColumnType::Complex(ComplexColumnType::Enum { values, name }) = &mut c.r#type {
                    match values {
                        EnumValues::String(l) => match rng.below(3) {
                            0 => l.push(format!("new{}", l.len())),
                            1 if l.len() > 1 => {
                                let i = rng.below(l.len());
                                l.remove(i);
                            }
                            _ => *name = format!("{}2", name),
                        },
                        EnumValues::Integer(l) => match rng.below(3) {
                            0 => {
                                let v = l.iter().map(|x| x.value).max().unwrap_or(0) + 1;
                                l.push(NumValue { name: format!("n{}", v), value: v })
                            }
                            1 if !l.is_empty() => {
                                let i = rng.below(l.len());
                                l[i].name = format!("{}_r", l[i].name);
                            }
                            _ => *name = format!("{}2", name),
                        },
                    }
                    return "enum_edit";
                }
            }
            "noop"
        }
        16 | 17 => {
            // remove (or remove and add) labels of some string enum anywhere in the models: the plan gets a
            // ModifyColumnType whose removed labels `revision` maps to a remaining one (fill_with map)
            for t in m.iter_mut() {
                for c in t.columns.iter_mut() {
                    if let ColumnType::Complex(ComplexColumnType::Enum { values: EnumValues::String(l), .. }) = &mut c.r#type {
                        if l.len() > 1 {
                            let i = rng.below(l.len());
                            let gone = l.remove(i);
                            if l.len() > 1 && rng.chance(1, 3) {
                                let j = rng.below(l.len());
                                l.remove(j);
                            }
                            if rng.chance(1, 3) {
                                l.push(format!("{}_v2", gone));
                            }
                            c.default = None;
                            return "enum_remove_label";
                        }
                    }
                }
            }
            "noop"
        }
        18 | 19 => {
            // foreign-key cycles between EXISTING tables and their removal: if two tables reference each other, drop both
            // (with everything that references them) together with one unrelated table; otherwise make two tables reference each other
            let refs_of = |t: &TableDef| -> Vec<String> {
                t.normalize().map(|n| n.constraints.iter().filter_map(|c| match c { TableConstraint::ForeignKey { ref_table, .. } => Some(ref_table.clone()), _ => None }).collect()).unwrap_or_default()
            };
            let mut pair: Option<(String, String)> = None;
            for a in m.iter() {
                for b in m.iter() {
                    if a.name < b.name && refs_of(a).contains(&b.name) && refs_of(b).contains(&a.name) {
                        pair = Some((a.name.clone(), b.name.clone()));
                    }
                }
            }
            if let Some((a, b)) = pair {
                let mut gone: Vec<String> = vec![a, b];
                if let Some(t) = m.iter().find(|t| !gone.contains(&t.name)) {
                    if rng.chance(3, 4) {
                        gone.push(if rng.chance(1, 2) { t.name.clone() } else { m.iter().filter(|t| !gone.contains(&t.name)).last().map(|t| t.name.clone()).unwrap() });
                    }
                }
                // close under "references a dropped table"
                loop {
                    let more: Vec<String> = m.iter().filter(|t| !gone.contains(&t.name) && refs_of(t).iter().any(|r| gone.contains(r))).map(|t| t.name.clone()).collect();
                    if more.is_empty() {
                        break;
                    }
                    gone.extend(more);
                }
                m.retain(|t| !gone.contains(&t.name));
                return "drop_fk_cycle_with_bystander";
            }
            if m.len() < 2 {
                return "noop";
            }
            let oi = (ti + 1 + rng.below(m.len() - 1)) % m.len();
            let (ta, tb) = (m[ti].clone(), m[oi].clone());
            let (pa, pb) = (pk_columns(&ta), pk_columns(&tb));
            if pa.len() != 1 || pb.len() != 1 {
                return "noop";
            }
            let (Some(tya), Some(tyb)) = (find_col(&ta, &pa[0]).map(|c| c.r#type.clone()), find_col(&tb, &pb[0]).map(|c| c.r#type.clone())) else { return "noop" };
            let (ca, cb) = (format!("{}_{}", tb.name, pb[0]), format!("{}_{}", ta.name, pa[0]));
            {
                let t = &mut m[ti];
                if !t.columns.iter().any(|c| c.name == ca) {
                    t.columns.push(col(&ca, tyb, true));
                }
                add_fk(rng, t, &ca, &tb.name, &pb[0]);
            }
            {
                let t = &mut m[oi];
                if !t.columns.iter().any(|c| c.name == cb) {
                    t.columns.push(col(&cb, tya, true));
                }
                add_fk(rng, t, &cb, &ta.name, &pa[0]);
            }
            "make_fk_cycle"
        }
        20 | 21 => {
            // two (or more) string-enum columns of ONE table that each lose the label their default names, in one step
            // (the planner must put each ModifyColumnDefault before the ModifyColumnType of the same column)
            let t = &mut m[ti];
            let is_label_default = |c: &ColumnDef| -> Option<String> {
                let ColumnType::Complex(ComplexColumnType::Enum { values: EnumValues::String(l), .. }) = &c.r#type else { return None };
                let Some(DefaultValue::String(d)) = &c.default else { return None };
                let bare = d.trim().trim_matches('\'').to_string();
                if l.len() >= 2 && l.contains(&bare) { Some(bare) } else { None }
            };
            let n = t.columns.iter().filter(|c| is_label_default(c).is_some()).count();
            if n >= 2 || (n == 1 && rng.chance(1, 2)) {
                // each such column loses the label its default names; half of the time the label is REPLACED (the enum does not
                // shrink: one label gone, one or two new ones), the new default is a label present before and after
                let replace = rng.chance(1, 2);
                for c in t.columns.iter_mut() {
                    if let Some(bare) = is_label_default(c) {
                        if let ColumnType::Complex(ComplexColumnType::Enum { values: EnumValues::String(l), .. }) = &mut c.r#type {
                            l.retain(|x| *x != bare);
                            let keep = l[0].clone();
                            if replace {
                                l.insert(0, format!("{}_v2", bare));
                                if rng.chance(1, 2) {
                                    l.push(format!("{}_v3", bare));
                                }
                            }
                            c.default = Some(DefaultValue::String(format!("'{}'", keep)));
                        }
                    }
                }
                return "enum_drop_default_labels";
            }
            for (cn, en, labels) in [("phase", "phase", ["draft", "live", "gone"]), ("stage", "stage", ["x", "y", "z"])] {
                if !t.columns.iter().any(|c| c.name == cn) {
                    let mut c = col(cn, ColumnType::Complex(ComplexColumnType::Enum { name: en.into(), values: EnumValues::String(labels.iter().map(|s| s.to_string()).collect()) }), true);
                    c.default = Some(DefaultValue::String(format!("'{}'", labels[rng.below(2)])));
                    t.columns.push(c);
                }
            }
            "enum_add_defaulted_pair"
        }
        22 => {
            // remove a table-level CHECK and delete an otherwise unconstrained column of the same table in one step
            for t in m.iter_mut() {
                let Some(ki) = t.constraints.iter().position(|c| matches!(c, TableConstraint::Check { .. })) else { continue };
                let TableConstraint::Check { expr, .. } = t.constraints[ki].clone() else { continue };
                let norm = t.normalize().ok();
                let constrained: Vec<String> = norm.map(|n| n.constraints.iter().flat_map(|c| match c {
                    TableConstraint::PrimaryKey { columns, .. } | TableConstraint::Unique { columns, .. } | TableConstraint::Index { columns, .. } | TableConstraint::ForeignKey { columns, .. } => columns.clone(),
                    TableConstraint::Check { .. } => vec![],
                }).collect()).unwrap_or_default();
                if let Some(ci) = t.columns.iter().position(|c| !constrained.contains(&c.name) && !expr.contains(&c.name)) {
                    if t.columns.len() > 2 {
                        t.columns.remove(ci);
                        t.constraints.remove(ki);
                        return "remove_check_and_column";
                    }
                }
            }
            "noop"
        }
        23 => {
            // a table drops the column whose NAME equals the referenced column of its own foreign key (comment.id next to
            // comment.post_id -> post.id), makes the foreign-key column its primary key and changes the foreign key's ON DELETE:
            // apply_action(DeleteColumn) filters ref_columns by name too, so the evolving schema loses the foreign key before the
            // plan's RemoveConstraint / AddConstraint of it are rendered
            for ti2 in 0..m.len() {
                let Ok(mut n) = m[ti2].normalize() else { continue };
                let hit = n.constraints.iter().find_map(|c| match c {
                    TableConstraint::ForeignKey { columns, ref_table, ref_columns, .. }
                        if columns.len() == 1 && ref_columns.len() == 1 && *ref_table != n.name && columns[0] != ref_columns[0]
                            && n.columns.iter().any(|c| c.name == ref_columns[0]) => Some((columns[0].clone(), ref_columns[0].clone())),
                    _ => None,
                });
                let Some((fkcol, gone)) = hit else { continue };
                if n.columns.len() < 3 {
                    continue;
                }
                for c in n.columns.iter_mut() {
                    c.primary_key = None;
                    c.unique = None;
                    c.index = None;
                    c.foreign_key = None;
                }
                n.columns.retain(|c| c.name != gone);
                n.constraints.retain(|c| match c {
                    TableConstraint::PrimaryKey { .. } => false,
                    TableConstraint::Unique { columns, .. } | TableConstraint::Index { columns, .. } => !columns.contains(&gone),
                    TableConstraint::ForeignKey { columns, .. } => !columns.contains(&gone),
                    TableConstraint::Check { expr, .. } => !expr.contains(&gone),
                });
                for c in n.constraints.iter_mut() {
                    if let TableConstraint::ForeignKey { columns, on_delete, .. } = c {
                        if columns[0] == fkcol {
                            *on_delete = if on_delete.is_none() { Some(ReferenceAction::Cascade) } else { None };
                        }
                    }
                }
                if let Some(c) = n.columns.iter_mut().find(|c| c.name == fkcol) {
                    c.nullable = false;
                }
                n.constraints.insert(0, TableConstraint::PrimaryKey { auto_increment: false, columns: vec![fkcol] });
                // nothing else may reference the dropped column
                let tname = n.name.clone();
                let referenced = m.iter().any(|o| o.normalize().map(|x| x.constraints.iter().any(|c| matches!(c, TableConstraint::ForeignKey { ref_table, ref_columns, .. } if *ref_table == tname && ref_columns.contains(&gone)))).unwrap_or(true));
                if referenced {
                    continue;
                }
                m[ti2] = n;
                return "drop_column_named_like_fk_target";
            }
            "noop"
        }
        24 | 25 => {
            // two existing tables with a same-named column: in ONE step the alphabetically earlier table drops the column while the later
            // table keeps it but removes its single-column index on it (first call: set the situation up)
            let has_plain = |t: &TableDef, n: &str| t.columns.iter().any(|c| c.name == n);
            let mut names: Vec<String> = m.iter().map(|t| t.name.clone()).collect();
            names.sort();
            for ai in 0..names.len() {
                for bi in (ai + 1)..names.len() {
                    let (an, bn) = (names[ai].clone(), names[bi].clone());
                    let a = m.iter().position(|t| t.name == an).unwrap();
                    let b = m.iter().position(|t| t.name == bn).unwrap();
                    if has_plain(&m[a], "shared_ref") && m[b].columns.iter().any(|c| c.name == "shared_ref" && matches!(c.index, Some(StrOrBoolOrArray::Bool(true)))) {
                        m[a].columns.retain(|c| c.name != "shared_ref");
                        for c in m[b].columns.iter_mut() {
                            if c.name == "shared_ref" {
                                c.index = None;
                            }
                        }
                        return "drop_column_and_unindex_namesake";
                    }
                }
            }
            if m.len() < 2 {
                return "noop";
            }
            let a = m.iter().position(|t| t.name == names[0]).unwrap();
            let b = m.iter().position(|t| t.name == names[names.len() - 1]).unwrap();
            if !has_plain(&m[a], "shared_ref") {
                m[a].columns.push(col("shared_ref", ColumnType::Simple(SimpleColumnType::Integer), true));
            }
            if !has_plain(&m[b], "shared_ref") {
                let mut c = col("shared_ref", ColumnType::Simple(SimpleColumnType::Integer), true);
                c.index = Some(StrOrBoolOrArray::Bool(true));
                m[b].columns.push(c);
            }
            "add_namesake_columns"
        }
        14 => {
            // add FK to another table
            if m.len() < 2 {
                return "noop";
            }
            let oi = (ti + 1 + rng.below(m.len() - 1)) % m.len();
            let target = m[oi].clone();
            let tpk = pk_columns(&target);
            if tpk.len() != 1 {
                return "noop";
            }
            let Some(rty) = find_col(&target, &tpk[0]).map(|c| c.r#type.clone()) else { return "noop" };
            let cname = format!("{}_{}", target.name, tpk[0]);
            let t = &mut m[ti];
            if !t.columns.iter().any(|c| c.name == cname) {
                t.columns.push(col(&cname, rty, true));
            }
            add_fk(rng, t, &cname, &target.name, &tpk[0]);
            "add_fk"
        }
        _ => {
            // re-order
            if rng.chance(1, 2) {
                rng.shuffle(m);
            } else {
                let t = &mut m[ti];
                rng.shuffle(&mut t.constraints);
            }
            "permute"
        }
    }
}

/// A sequence of loader-accepted model sets T1..Tn (each differs from the previous by 1–6 edits).
pub fn gen_evolution(rng: &mut Rng, steps: usize, profile: Profile, rejected: &mut usize) -> Vec<Vec<TableDef>> {
    let mut cur = gen_models(rng, profile);
    let mut out = vec![cur.clone()];
    for _ in 1..steps {
        let mut tries = 0;
        loop {
            tries += 1;
            let mut cand = cur.clone();
            let ne = rng.range(1, 6);
            for _ in 0..ne {
                edit_models(rng, &mut cand, profile);
            }
            if loader_accepts(&cand) {
                cur = cand;
                break;
            }
            *rejected += 1;
            if tries > 30 {
                break;
            }
        }
        out.push(cur.clone());
    }
    out
}

/// Malformed stream: a model set violating one loader rule.
pub fn gen_malformed(rng: &mut Rng) -> Vec<TableDef> {
    let mut m = gen_models(rng, Profile::Loader);
    if m.is_empty() {
        return m;
    }
    let ti = rng.below(m.len());
    match rng.below(14) {
        0 => {
            let d = m[ti].clone();
            m.push(d);
        }
        1 => {
            let t = &mut m[ti];
            t.columns[0].foreign_key = Some(ForeignKeySyntax::String(rng.pick(&["nodot", "a.b.c", ".x", "x.", ""]).to_string()));
        }
        2 => {
            let t = &mut m[ti];
            let n = t.columns[0].name.clone();
            t.constraints.push(TableConstraint::Index { name: Some("dup".into()), columns: vec![n.clone(), "missing".into()] });
        }
        3 => {
            let t = &mut m[ti];
            t.columns[0].index = Some(StrOrBoolOrArray::Array(vec!["i".into(), "i".into()]));
        }
        4 => {
            let t = &mut m[ti];
            let c = t.columns[0].clone();
            t.columns.push(c);
            t.columns[0].index = Some(StrOrBoolOrArray::Str("i".into()));
            let l = t.columns.len() - 1;
            t.columns[l].index = Some(StrOrBoolOrArray::Str("i".into()));
        }
        5 => {
            let t = &mut m[ti];
            t.constraints.push(TableConstraint::ForeignKey {
                name: None,
                columns: vec![t.columns[0].name.clone()],
                ref_table: "nowhere".into(),
                ref_columns: vec!["id".into()],
                on_delete: None,
                on_update: None,
            });
        }
        6 => {
            let t = &mut m[ti];
            t.constraints.push(TableConstraint::Unique { name: None, columns: vec![] });
        }
        7 => {
            let t = &mut m[ti];
            t.constraints.retain(|c| !matches!(c, TableConstraint::PrimaryKey { .. }));
            for c in t.columns.iter_mut() {
                c.primary_key = None;
            }
        }
        10 | 11 | 12 | 13 => {
            // an enum column whose default is not a quoted label: numbers, booleans, floats, the empty string, a bare number
            // (validate_column checks default.to_sql() of EVERY default kind against the labels / the numeric values)
            let t = &mut m[ti];
            let values = if rng.chance(1, 2) {
                EnumValues::Integer(vec![NumValue { name: "low".into(), value: 0 }, NumValue { name: "high".into(), value: 10 }])
            } else {
                EnumValues::String(vec!["true".into(), "0".into(), "x".into()])
            };
            let default = match rng.below(7) {
                0 => DefaultValue::Integer(0),
                1 => DefaultValue::Integer(10),
                2 => DefaultValue::Integer(3),
                3 => DefaultValue::Bool(true),
                4 => DefaultValue::Float(0.0),
                5 => DefaultValue::String("".into()),
                _ => DefaultValue::String("0".into()),
            };
            t.columns.push(ColumnDef {
                default: Some(default),
                ..col("lvl", ColumnType::Complex(ComplexColumnType::Enum { name: "lvl".into(), values }), rng.chance(1, 2))
            });
        }
        8 => {
            let t = &mut m[ti];
            t.columns.push(ColumnDef {
                default: Some(DefaultValue::String("'nope'".into())),
                ..col("e", ColumnType::Complex(ComplexColumnType::Enum { name: "e".into(), values: EnumValues::String(vec!["x".into(), "x".into()]) }), true)
            });
        }
        _ => {
            let t = &mut m[ti];
            t.columns.push(ColumnDef {
                primary_key: Some(PrimaryKeySyntax::Object(PrimaryKeyDef { auto_increment: true })),
                ..col("txt", ColumnType::Simple(SimpleColumnType::Text), false)
            });
        }
    }
    m
}

/// C07's equivalence-preserving rewriter: re-spell `t` without changing the schema it describes.
/// Each rewrite is applied with probability 1/2, so repeated calls cover the combinations.
pub fn respell_table(rng: &mut Rng, t: &TableDef) -> TableDef {
    let mut t = t.clone();
    let Ok(norm) = t.normalize() else { return t };
    // 1. primary key: inline <-> table level (only when exactly one spelling is present)
    let has_table_pk = t.constraints.iter().any(|c| matches!(c, TableConstraint::PrimaryKey { .. }));
    let inline_pk: Vec<usize> = t.columns.iter().enumerate().filter(|(_, c)| matches!(c.primary_key, Some(PrimaryKeySyntax::Bool(true)) | Some(PrimaryKeySyntax::Object(_)))).map(|(i, _)| i).collect();
    if rng.chance(1, 2) {
        if !has_table_pk && !inline_pk.is_empty() {
            // inline -> table level (column order = declaration order, as normalize does)
            if let Some(TableConstraint::PrimaryKey { auto_increment, columns }) = norm.constraints.iter().find(|c| matches!(c, TableConstraint::PrimaryKey { .. })) {
                for i in &inline_pk {
                    t.columns[*i].primary_key = None;
                }
                t.constraints.push(TableConstraint::PrimaryKey { auto_increment: *auto_increment, columns: columns.clone() });
            }
        } else if has_table_pk && inline_pk.is_empty() {
            // table level -> inline, only if the key's column order is declaration order
            if let Some(pos) = t.constraints.iter().position(|c| matches!(c, TableConstraint::PrimaryKey { .. })) {
                if let TableConstraint::PrimaryKey { auto_increment, columns } = t.constraints[pos].clone() {
                    let decl: Vec<String> = t.columns.iter().map(|c| c.name.clone()).filter(|n| columns.contains(n)).collect();
                    let distinct = t.columns.iter().filter(|c| columns.contains(&c.name)).count() == columns.len();
                    if !columns.is_empty() && decl == columns && distinct && !t.constraints.iter().enumerate().any(|(i, c)| i != pos && matches!(c, TableConstraint::PrimaryKey { .. })) {
                        t.constraints.remove(pos);
                        for c in t.columns.iter_mut() {
                            if columns.contains(&c.name) {
                                c.primary_key = Some(if auto_increment {
                                    PrimaryKeySyntax::Object(PrimaryKeyDef { auto_increment: true })
                                } else if rng.chance(1, 2) {
                                    PrimaryKeySyntax::Bool(true)
                                } else {
                                    PrimaryKeySyntax::Object(PrimaryKeyDef { auto_increment: false })
                                });
                            }
                        }
                    }
                }
            }
        }
    }
    // 2. unnamed single-column unique / index: inline true <-> table level
    for unique in [true, false] {
        if !rng.chance(1, 2) {
            continue;
        }
        for ci in 0..t.columns.len() {
            let cn = t.columns[ci].name.clone();
            let cur = if unique { t.columns[ci].unique.clone() } else { t.columns[ci].index.clone() };
            let tl = t.constraints.iter().position(|c| match c {
                TableConstraint::Unique { name: None, columns } if unique => columns.len() == 1 && columns[0] == cn,
                TableConstraint::Index { name: None, columns } if !unique => columns.len() == 1 && columns[0] == cn,
                _ => false,
            });
            match (cur, tl) {
                (Some(StrOrBoolOrArray::Bool(true)), None) if t.columns.iter().filter(|c| c.name == cn).count() == 1
                    && !t.columns.iter().any(|c| {
                        // another column naming its group "__auto_<cn>" would merge with this column's anonymous group (table.rs:129,165)
                        let names = |v: &Option<StrOrBoolOrArray>| match v { Some(StrOrBoolOrArray::Str(n)) => vec![n.clone()], Some(StrOrBoolOrArray::Array(l)) => l.clone(), _ => vec![] };
                        names(&c.unique).iter().chain(names(&c.index).iter()).any(|n| *n == format!("__auto_{}", cn))
                    }) => {
                    if unique { t.columns[ci].unique = None } else { t.columns[ci].index = None }
                    t.constraints.push(if unique {
                        TableConstraint::Unique { name: None, columns: vec![cn] }
                    } else {
                        TableConstraint::Index { name: None, columns: vec![cn] }
                    });
                }
                (None, Some(p)) if t.columns.iter().filter(|c| c.name == cn).count() == 1 => {
                    t.constraints.remove(p);
                    if unique { t.columns[ci].unique = Some(StrOrBoolOrArray::Bool(true)) } else { t.columns[ci].index = Some(StrOrBoolOrArray::Bool(true)) }
                }
                (Some(StrOrBoolOrArray::Bool(false)), _) if rng.chance(1, 2) => {
                    if unique { t.columns[ci].unique = None } else { t.columns[ci].index = None }
                }
                _ => {}
            }
        }
    }
    // 3. foreign keys: the three inline spellings <-> table level (unnamed, single column)
    if rng.chance(1, 2) {
        for ci in 0..t.columns.len() {
            let cn = t.columns[ci].name.clone();
            if t.columns.iter().filter(|c| c.name == cn).count() != 1 {
                continue;
            }
            let has_tl = t.constraints.iter().any(|c| matches!(c, TableConstraint::ForeignKey { columns, .. } if columns.len() == 1 && columns[0] == cn));
            if let Some(fk) = t.columns[ci].foreign_key.clone() {
                if has_tl {
                    continue; // the inline declaration is shadowed; leave as is
                }
                let (rt, rcs, od, ou) = match &fk {
                    ForeignKeySyntax::String(s) => {
                        let p: Vec<&str> = s.split('.').collect();
                        (p[0].to_string(), vec![p[1].to_string()], None, None)
                    }
                    ForeignKeySyntax::Reference(r) => {
                        let p: Vec<&str> = r.references.split('.').collect();
                        (p[0].to_string(), vec![p[1].to_string()], r.on_delete.clone(), r.on_update.clone())
                    }
                    ForeignKeySyntax::Object(o) => (o.ref_table.clone(), o.ref_columns.clone(), o.on_delete.clone(), o.on_update.clone()),
                };
                let simple = rcs.len() == 1 && !rt.contains('.') && !rcs[0].contains('.') && !rt.is_empty() && !rcs[0].is_empty();
                match rng.below(4) {
                    0 if simple && od.is_none() && ou.is_none() => {
                        t.columns[ci].foreign_key = Some(ForeignKeySyntax::String(format!("{}.{}", rt, rcs[0])));
                    }
                    1 if simple => {
                        t.columns[ci].foreign_key = Some(ForeignKeySyntax::Reference(ReferenceSyntaxDef { references: format!("{}.{}", rt, rcs[0]), on_delete: od, on_update: ou }));
                    }
                    2 => {
                        t.columns[ci].foreign_key = Some(ForeignKeySyntax::Object(ForeignKeyDef { ref_table: rt, ref_columns: rcs, on_delete: od, on_update: ou }));
                    }
                    _ => {
                        t.columns[ci].foreign_key = None;
                        t.constraints.push(TableConstraint::ForeignKey { name: None, columns: vec![cn], ref_table: rt, ref_columns: rcs, on_delete: od, on_update: ou });
                    }
                }
            }
        }
    }
    // 4. default literals: numeric / boolean <-> string with the same SQL text
    if rng.chance(1, 2) {
        for c in t.columns.iter_mut() {
            c.default = match c.default.clone() {
                Some(DefaultValue::Integer(n)) => Some(DefaultValue::String(n.to_string())),
                Some(DefaultValue::Bool(b)) => Some(DefaultValue::String(b.to_string())),
                Some(DefaultValue::Float(f)) => Some(DefaultValue::String(f.to_string())),
                Some(DefaultValue::String(s)) => {
                    if let Ok(n) = s.parse::<i64>() {
                        if n.to_string() == s { Some(DefaultValue::Integer(n)) } else { Some(DefaultValue::String(s)) }
                    } else if s == "true" || s == "false" {
                        Some(DefaultValue::Bool(s == "true"))
                    } else {
                        Some(DefaultValue::String(s))
                    }
                }
                None => None,
            };
        }
    }
    // 5. integer-enum relabelling (name and labels are ORM-only)
    if rng.chance(1, 2) {
        for c in t.columns.iter_mut() {
            if let ColumnType::Complex(ComplexColumnType::Enum { name, values: EnumValues::Integer(vals) }) = &mut c.r#type {
                if c.default.is_none() {
                    *name = format!("{}_renamed", name);
                    for v in vals.iter_mut() {
                        v.name = format!("{}_x", v.name);
                    }
                }
            }
        }
    }
    // 6. constraint order
    if rng.chance(1, 2) {
        rng.shuffle(&mut t.constraints);
    }
    // 7. an absent inline flag <-> the explicit `false` (valid, unusual): no primary key / unique / index either way
    for c in t.columns.iter_mut() {
        if c.index.is_none() && rng.chance(1, 3) {
            c.index = Some(StrOrBoolOrArray::Bool(false));
        } else if matches!(c.index, Some(StrOrBoolOrArray::Bool(false))) && rng.chance(1, 2) {
            c.index = None;
        }
        if c.unique.is_none() && rng.chance(1, 3) {
            c.unique = Some(StrOrBoolOrArray::Bool(false));
        }
        if c.primary_key.is_none() && rng.chance(1, 4) {
            c.primary_key = Some(PrimaryKeySyntax::Bool(false));
        }
    }
    t
}

pub fn respell_models(rng: &mut Rng, m: &[TableDef]) -> Vec<TableDef> {
    let mut out: Vec<TableDef> = m.iter().map(|t| respell_table(rng, t)).collect();
    if rng.chance(1, 2) {
        rng.shuffle(&mut out);
    }
    out
}

/// C14: the project whose tables are literally named prefix+name (tables, FK targets inline and table level).
pub fn literal_table(p: &str, t: &TableDef) -> TableDef {
    let mut t = t.clone();
    t.name = format!("{}{}", p, t.name);
    for c in t.columns.iter_mut() {
        literal_col(p, c);
    }
    for k in t.constraints.iter_mut() {
        literal_constraint(p, k);
    }
    t
}
pub fn literal_ref(p: &str, s: &str) -> String {
    let parts: Vec<&str> = s.split('.').collect();
    if parts.len() == 2 && !parts[0].is_empty() && !parts[1].is_empty() {
        format!("{}{}.{}", p, parts[0], parts[1])
    } else {
        s.to_string()
    }
}
pub fn literal_col(p: &str, c: &mut ColumnDef) {
    c.foreign_key = match c.foreign_key.take() {
        Some(ForeignKeySyntax::String(s)) => Some(ForeignKeySyntax::String(literal_ref(p, &s))),
        Some(ForeignKeySyntax::Reference(mut r)) => {
            r.references = literal_ref(p, &r.references);
            Some(ForeignKeySyntax::Reference(r))
        }
        Some(ForeignKeySyntax::Object(mut o)) => {
            o.ref_table = format!("{}{}", p, o.ref_table);
            Some(ForeignKeySyntax::Object(o))
        }
        None => None,
    };
}
pub fn literal_constraint(p: &str, k: &mut TableConstraint) {
    if let TableConstraint::ForeignKey { ref_table, .. } = k {
        *ref_table = format!("{}{}", p, ref_table);
    }
}
pub fn literal_action(p: &str, a: &MigrationAction) -> MigrationAction {
    use MigrationAction::*;
    let pt = |t: &String| format!("{}{}", p, t);
    match a.clone() {
        CreateTable { table, mut columns, mut constraints } => {
            columns.iter_mut().for_each(|c| literal_col(p, c));
            constraints.iter_mut().for_each(|k| literal_constraint(p, k));
            CreateTable { table: pt(&table), columns, constraints }
        }
        DeleteTable { table } => DeleteTable { table: pt(&table) },
        AddColumn { table, mut column, fill_with } => {
            literal_col(p, &mut column);
            AddColumn { table: pt(&table), column, fill_with }
        }
        RenameColumn { table, from, to } => RenameColumn { table: pt(&table), from, to },
        DeleteColumn { table, column } => DeleteColumn { table: pt(&table), column },
        ModifyColumnType { table, column, new_type, fill_with } => ModifyColumnType { table: pt(&table), column, new_type, fill_with },
        ModifyColumnNullable { table, column, nullable, fill_with } => ModifyColumnNullable { table: pt(&table), column, nullable, fill_with },
        ModifyColumnDefault { table, column, new_default } => ModifyColumnDefault { table: pt(&table), column, new_default },
        ModifyColumnComment { table, column, new_comment } => ModifyColumnComment { table: pt(&table), column, new_comment },
        AddConstraint { table, mut constraint } => {
            literal_constraint(p, &mut constraint);
            AddConstraint { table: pt(&table), constraint }
        }
        RemoveConstraint { table, mut constraint } => {
            literal_constraint(p, &mut constraint);
            RemoveConstraint { table: pt(&table), constraint }
        }
        RenameTable { from, to } => RenameTable { from: pt(&from), to: pt(&to) },
        RawSql { sql } => RawSql { sql },
    }
}
