//! What `vespertide revision` does to a planned migration before writing it, with every prompt
//! answered by its default (text prompt: the pre-filled default; enum selection: item 0).
//! `find_missing_fill_with` / `find_missing_enum_fill_with` are the real planner functions; the few
//! lines around them restate private CLI helpers (revision.rs:88-102,184-215,271-289,307-342) and are
//! themselves cross-checked against the real binary by the CLI correspondence (K-cli).
use std::collections::{BTreeMap, HashMap, HashSet};
use vespertide_core::{MigrationAction, MigrationPlan, TableConstraint, TableDef};
use vespertide_planner::{find_missing_enum_fill_with, find_missing_fill_with};

pub fn wrap_if_spaces(value: String) -> String {
    if value.is_empty() {
        return value;
    }
    if value.starts_with('\'') && value.ends_with('\'') {
        return value;
    }
    if value.contains(' ') {
        return format!("'{}'", value);
    }
    value
}

pub fn refuses(plan: &MigrationPlan) -> bool {
    let mut fk_columns: HashSet<(String, String)> = HashSet::new();
    for action in &plan.actions {
        if let MigrationAction::AddConstraint {
            table,
            constraint: TableConstraint::ForeignKey { columns, .. },
        } = action
        {
            for col in columns {
                fk_columns.insert((table.clone(), col.to_string()));
            }
        }
    }
    for action in &plan.actions {
        if let MigrationAction::AddColumn { table, column, .. } = action {
            let has_fk = column.foreign_key.is_some()
                || fk_columns.contains(&(table.clone(), column.name.to_string()));
            if has_fk && !column.nullable && column.default.is_none() {
                return true;
            }
        }
    }
    false
}

/// Returns None when `revision` would refuse (non-nullable FK column added).
pub fn revision_fill(plan: &MigrationPlan, baseline: &[TableDef]) -> Option<MigrationPlan> {
    if refuses(plan) {
        return None;
    }
    let mut plan = plan.clone();
    let missing = find_missing_fill_with(&plan, baseline);
    if !missing.is_empty() {
        let mut fill_values: HashMap<(String, String), String> = HashMap::new();
        for item in &missing {
            let value = if let Some(ev) = &item.enum_values {
                match ev.first() {
                    Some(e) => format!("'{}'", e),
                    None => "''".to_string(),
                }
            } else {
                wrap_if_spaces(item.default_value.clone())
            };
            fill_values.insert((item.table.clone(), item.column.clone()), value);
        }
        for action in &mut plan.actions {
            match action {
                MigrationAction::AddColumn {
                    table,
                    column,
                    fill_with,
                } => {
                    if fill_with.is_none()
                        && let Some(v) = fill_values.get(&(table.clone(), column.name.clone()))
                    {
                        *fill_with = Some(v.clone());
                    }
                }
                MigrationAction::ModifyColumnNullable {
                    table,
                    column,
                    fill_with,
                    ..
                } => {
                    if fill_with.is_none()
                        && let Some(v) = fill_values.get(&(table.clone(), column.clone()))
                    {
                        *fill_with = Some(v.clone());
                    }
                }
                _ => {}
            }
        }
    }
    let missing = find_missing_enum_fill_with(&plan, baseline);
    for item in &missing {
        let Some(first) = item.remaining_values.first() else { continue };
        let v = format!("'{}'", first)
            .trim_start_matches('\'')
            .trim_end_matches('\'')
            .to_string();
        let mut mappings = BTreeMap::new();
        for removed in &item.removed_values {
            mappings.insert(removed.clone(), v.clone());
        }
        if let Some(MigrationAction::ModifyColumnType { fill_with, .. }) =
            plan.actions.get_mut(item.action_index)
        {
            match fill_with {
                Some(existing) => existing.extend(mappings),
                None => *fill_with = Some(mappings),
            }
        }
    }
    // apply_default_as_fill_with (revision.rs): a defaulted column that becomes NOT NULL is filled with its default
    for action in &mut plan.actions {
        if let MigrationAction::ModifyColumnNullable {
            table,
            column,
            nullable: false,
            fill_with,
        } = action
            && fill_with.is_none()
            && let Some(col) = baseline
                .iter()
                .find(|t| t.name == *table)
                .and_then(|t| t.columns.iter().find(|c| c.name == *column))
            && let Some(default) = col.default.as_ref()
        {
            let value = default.to_sql();
            let bare_label = col.r#type.enum_variant_names().is_some()
                && !value.trim().is_empty()
                && !value.trim().starts_with('\'')
                && !value.contains('(');
            *fill_with = Some(if bare_label { format!("'{}'", value.trim()) } else { value });
        }
    }
    Some(plan)
}
