//! Printers from vespertide-core values to Gallina terms of coq/m1/Model/Schema.v.
use std::collections::BTreeMap;
use vespertide_core::schema::foreign_key::ForeignKeySyntax;
use vespertide_core::schema::primary_key::PrimaryKeySyntax;
use vespertide_core::*;

pub trait G {
    fn g(&self, o: &mut String);
    fn gs(&self) -> String {
        let mut s = String::new();
        self.g(&mut s);
        s
    }
}

impl G for str {
    fn g(&self, o: &mut String) {
        o.push('"');
        for ch in self.chars() {
            if ch == '"' {
                o.push_str("\"\"");
            } else {
                o.push(ch);
            }
        }
        o.push('"');
    }
}
impl G for String {
    fn g(&self, o: &mut String) {
        self.as_str().g(o)
    }
}
impl G for bool {
    fn g(&self, o: &mut String) {
        o.push_str(if *self { "true" } else { "false" })
    }
}
impl G for u32 {
    fn g(&self, o: &mut String) {
        o.push_str(&format!("{}%N", self))
    }
}
impl G for usize {
    fn g(&self, o: &mut String) {
        o.push_str(&format!("{}%nat", self))
    }
}
impl G for i64 {
    fn g(&self, o: &mut String) {
        o.push_str(&format!("({})%Z", self))
    }
}
impl G for i32 {
    fn g(&self, o: &mut String) {
        o.push_str(&format!("({})%Z", self))
    }
}
impl<T: G> G for Vec<T> {
    fn g(&self, o: &mut String) {
        self.as_slice().g(o)
    }
}
impl<T: G> G for [T] {
    fn g(&self, o: &mut String) {
        o.push('[');
        for (i, x) in self.iter().enumerate() {
            if i > 0 {
                o.push_str("; ");
            }
            x.g(o);
        }
        o.push(']');
    }
}
impl<T: G> G for Option<T> {
    fn g(&self, o: &mut String) {
        match self {
            None => o.push_str("None"),
            Some(x) => {
                o.push_str("(Some ");
                x.g(o);
                o.push(')');
            }
        }
    }
}
impl<T: G> G for Box<T> {
    fn g(&self, o: &mut String) {
        (**self).g(o)
    }
}
impl<A: G, B: G> G for (A, B) {
    fn g(&self, o: &mut String) {
        o.push('(');
        self.0.g(o);
        o.push_str(", ");
        self.1.g(o);
        o.push(')');
    }
}
impl G for BTreeMap<String, String> {
    fn g(&self, o: &mut String) {
        let v: Vec<(String, String)> = self.iter().map(|(k, v)| (k.clone(), v.clone())).collect();
        v.g(o)
    }
}

/// `(Ctor a b c)` helper
pub fn app(o: &mut String, ctor: &str, args: &[&dyn G]) {
    if args.is_empty() {
        o.push_str(ctor);
        return;
    }
    o.push('(');
    o.push_str(ctor);
    for a in args {
        o.push(' ');
        a.g(o);
    }
    o.push(')');
}

impl G for SimpleColumnType {
    fn g(&self, o: &mut String) {
        o.push_str(match self {
            SimpleColumnType::SmallInt => "SmallInt",
            SimpleColumnType::Integer => "Integer",
            SimpleColumnType::BigInt => "BigInt",
            SimpleColumnType::Real => "Real",
            SimpleColumnType::DoublePrecision => "DoublePrecision",
            SimpleColumnType::Text => "Text",
            SimpleColumnType::Boolean => "Boolean",
            SimpleColumnType::Date => "Date",
            SimpleColumnType::Time => "Time",
            SimpleColumnType::Timestamp => "Timestamp",
            SimpleColumnType::Timestamptz => "Timestamptz",
            SimpleColumnType::Interval => "Interval",
            SimpleColumnType::Bytea => "Bytea",
            SimpleColumnType::Uuid => "Uuid",
            SimpleColumnType::Json => "Json",
            SimpleColumnType::Inet => "Inet",
            SimpleColumnType::Cidr => "Cidr",
            SimpleColumnType::Macaddr => "Macaddr",
            SimpleColumnType::Xml => "Xml",
        })
    }
}
impl G for NumValue {
    fn g(&self, o: &mut String) {
        app(o, "mkNum", &[&self.name, &self.value])
    }
}
impl G for EnumValues {
    fn g(&self, o: &mut String) {
        match self {
            EnumValues::String(l) => app(o, "EVString", &[l]),
            EnumValues::Integer(l) => app(o, "EVInteger", &[l]),
        }
    }
}
impl G for ColumnType {
    fn g(&self, o: &mut String) {
        match self {
            ColumnType::Simple(s) => app(o, "TSimple", &[s]),
            ColumnType::Complex(c) => match c {
                ComplexColumnType::Varchar { length } => app(o, "TVarchar", &[length]),
                ComplexColumnType::Numeric { precision, scale } => {
                    app(o, "TNumeric", &[precision, scale])
                }
                ComplexColumnType::Char { length } => app(o, "TChar", &[length]),
                ComplexColumnType::Custom { custom_type } => app(o, "TCustom", &[custom_type]),
                ComplexColumnType::Enum { name, values } => app(o, "TEnum", &[name, values]),
            },
        }
    }
}
impl G for DefaultValue {
    fn g(&self, o: &mut String) {
        match self {
            DefaultValue::Bool(b) => app(o, "DBool", &[b]),
            DefaultValue::Integer(n) => app(o, "DInt", &[n]),
            DefaultValue::Float(f) => app(o, "DFloat", &[&f.to_string()]),
            DefaultValue::String(s) => app(o, "DStr", &[s]),
        }
    }
}
impl G for PrimaryKeySyntax {
    fn g(&self, o: &mut String) {
        match self {
            PrimaryKeySyntax::Bool(b) => app(o, "PKBool", &[b]),
            PrimaryKeySyntax::Object(d) => app(o, "PKObj", &[&d.auto_increment]),
        }
    }
}
impl G for StrOrBoolOrArray {
    fn g(&self, o: &mut String) {
        match self {
            StrOrBoolOrArray::Str(s) => app(o, "SStr", &[s]),
            StrOrBoolOrArray::Array(l) => app(o, "SArr", &[l]),
            StrOrBoolOrArray::Bool(b) => app(o, "SBool", &[b]),
        }
    }
}
impl G for ReferenceAction {
    fn g(&self, o: &mut String) {
        o.push_str(match self {
            ReferenceAction::Cascade => "Cascade",
            ReferenceAction::Restrict => "Restrict",
            ReferenceAction::SetNull => "SetNull",
            ReferenceAction::SetDefault => "SetDefault",
            ReferenceAction::NoAction => "NoAction",
        })
    }
}
impl G for ForeignKeySyntax {
    fn g(&self, o: &mut String) {
        match self {
            ForeignKeySyntax::String(s) => app(o, "FKStr", &[s]),
            ForeignKeySyntax::Reference(r) => {
                app(o, "FKRef", &[&r.references, &r.on_delete, &r.on_update])
            }
            ForeignKeySyntax::Object(d) => app(
                o,
                "FKObj",
                &[&d.ref_table, &d.ref_columns, &d.on_delete, &d.on_update],
            ),
        }
    }
}
impl G for ColumnDef {
    fn g(&self, o: &mut String) {
        app(
            o,
            "mkCol",
            &[
                &self.name,
                &self.r#type,
                &self.nullable,
                &self.default,
                &self.comment,
                &self.primary_key,
                &self.unique,
                &self.index,
                &self.foreign_key,
            ],
        )
    }
}
impl G for TableConstraint {
    fn g(&self, o: &mut String) {
        match self {
            TableConstraint::PrimaryKey {
                auto_increment,
                columns,
            } => app(o, "CPrimaryKey", &[auto_increment, columns]),
            TableConstraint::Unique { name, columns } => app(o, "CUnique", &[name, columns]),
            TableConstraint::ForeignKey {
                name,
                columns,
                ref_table,
                ref_columns,
                on_delete,
                on_update,
            } => app(
                o,
                "CForeignKey",
                &[name, columns, ref_table, ref_columns, on_delete, on_update],
            ),
            TableConstraint::Check { name, expr } => app(o, "CCheck", &[name, expr]),
            TableConstraint::Index { name, columns } => app(o, "CIndex", &[name, columns]),
        }
    }
}
impl G for TableDef {
    fn g(&self, o: &mut String) {
        app(
            o,
            "mkTable",
            &[&self.name, &self.description, &self.columns, &self.constraints],
        )
    }
}
impl G for MigrationAction {
    fn g(&self, o: &mut String) {
        use MigrationAction::*;
        match self {
            CreateTable {
                table,
                columns,
                constraints,
            } => app(o, "CreateTable", &[table, columns, constraints]),
            DeleteTable { table } => app(o, "DeleteTable", &[table]),
            AddColumn {
                table,
                column,
                fill_with,
            } => app(o, "AddColumn", &[table, column, fill_with]),
            RenameColumn { table, from, to } => app(o, "RenameColumn", &[table, from, to]),
            DeleteColumn { table, column } => app(o, "DeleteColumn", &[table, column]),
            ModifyColumnType {
                table,
                column,
                new_type,
                fill_with,
            } => app(o, "ModifyColumnType", &[table, column, new_type, fill_with]),
            ModifyColumnNullable {
                table,
                column,
                nullable,
                fill_with,
            } => app(
                o,
                "ModifyColumnNullable",
                &[table, column, nullable, fill_with],
            ),
            ModifyColumnDefault {
                table,
                column,
                new_default,
            } => app(o, "ModifyColumnDefault", &[table, column, new_default]),
            ModifyColumnComment {
                table,
                column,
                new_comment,
            } => app(o, "ModifyColumnComment", &[table, column, new_comment]),
            AddConstraint { table, constraint } => app(o, "AddConstraint", &[table, constraint]),
            RemoveConstraint { table, constraint } => {
                app(o, "RemoveConstraint", &[table, constraint])
            }
            RenameTable { from, to } => app(o, "RenameTable", &[from, to]),
            RawSql { sql } => app(o, "RawSql", &[sql]),
        }
    }
}
impl G for MigrationPlan {
    fn g(&self, o: &mut String) {
        app(
            o,
            "mkPlan",
            &[
                &self.id,
                &self.comment,
                &self.created_at,
                &self.version,
                &self.actions,
            ],
        )
    }
}

/// Result printer: `(Ok x)` / `(Err e)`
pub fn gres<T: G, E: G>(r: &Result<T, E>) -> String {
    let mut o = String::new();
    match r {
        Ok(x) => app(&mut o, "Ok", &[x]),
        Err(e) => app(&mut o, "Err", &[e]),
    }
    o
}

/// A pre-rendered Gallina term.
pub struct Raw(pub String);
impl G for Raw {
    fn g(&self, o: &mut String) {
        o.push_str(&self.0)
    }
}
