/// xorshift64* — every random choice of a run is drawn from one state seeded by VERIF_SEED.
#[derive(Clone)]
pub struct Rng(pub u64);

impl Rng {
    pub fn new(seed: u64) -> Self {
        let mut r = Rng(seed.wrapping_mul(0x9E3779B97F4A7C15) ^ 0xD1B54A32D192ED03);
        if r.0 == 0 {
            r.0 = 0x1234_5678_9abc_def1;
        }
        for _ in 0..8 {
            r.next();
        }
        r
    }
    pub fn next(&mut self) -> u64 {
        let mut x = self.0;
        x ^= x >> 12;
        x ^= x << 25;
        x ^= x >> 27;
        self.0 = x;
        x.wrapping_mul(0x2545F4914F6CDD1D)
    }
    pub fn below(&mut self, n: usize) -> usize {
        if n == 0 { 0 } else { (self.next() % n as u64) as usize }
    }
    pub fn range(&mut self, lo: usize, hi: usize) -> usize {
        lo + self.below(hi - lo + 1)
    }
    pub fn chance(&mut self, num: usize, den: usize) -> bool {
        self.below(den) < num
    }
    pub fn pick<'a, T>(&mut self, l: &'a [T]) -> &'a T {
        &l[self.below(l.len())]
    }
    pub fn shuffle<T>(&mut self, l: &mut [T]) {
        for i in (1..l.len()).rev() {
            let j = self.below(i + 1);
            l.swap(i, j);
        }
    }
    pub fn fork(&mut self) -> Rng {
        Rng::new(self.next())
    }
}
