"""Shared machinery of the /verif checks: building Coq layers and harness crates, running
correspondence shards inside Coq, verdicts, evidence, known findings, replays."""
import hashlib, json, os, re, subprocess, sys, time, glob, shutil
from concurrent.futures import ThreadPoolExecutor
import contextlib, fcntl, functools, threading

ROOT = os.path.dirname(os.path.dirname(os.path.abspath(__file__)))
CACHE = os.path.join(ROOT, ".cache")
TARGET = os.path.join(CACHE, "target")
REPO = "/repo"
GUARD = "vespertide_verif"

ENV = dict(os.environ)
ENV.update({"CARGO_NET_OFFLINE": "true", "CARGO_TARGET_DIR": TARGET, "NO_COLOR": "1",
            "RUSTFLAGS": (os.environ.get("RUSTFLAGS", "") + " --cfg " + GUARD).strip()})

FORBIDDEN = re.compile(r"\b(Admitted|admit|Axiom|Axioms|Parameter|Parameters|Conjecture|Conjectures|Admit Obligations)\b|Unset Guard|bypass_check|type-in-type|impredicative-set|Unset Universe Checking|Unset Positivity")

# axioms of Coq's own standard library that a theorem may depend on (named in TRUSTED_BASE.md)
AXIOM_ALLOW = {
    "functional_extensionality_dep", "proof_irrelevance", "JMeq_eq", "classic", "eq_rect_eq",
    "Eqdep.Eq_rect_eq.eq_rect_eq", "FunctionalExtensionality.functional_extensionality_dep",
    "Classical_Prop.classic", "ProofIrrelevance.proof_irrelevance",
}


def sh(cmd, cwd=None, timeout=3600, env=None, check=False):
    t0 = time.time()
    p = subprocess.run(cmd, cwd=cwd, shell=isinstance(cmd, str), env=env or ENV, capture_output=True,
                       text=True, timeout=timeout, errors="replace")
    out = "\n".join(l for l in (p.stdout + p.stderr).splitlines() if not l.startswith("WARNING conda"))
    if check and p.returncode != 0:
        raise RuntimeError("command failed (%s): %s\n%s" % (p.returncode, cmd, out[-4000:]))
    return p.returncode, out, time.time() - t0


# ---------------------------------------------------------------------------------- Coq layers
LAYER_DEPS = {"m1": [], "mig": [], "serde": ["m1"], "sql": ["m1"], "sqlite": ["m1"], "pg": ["m1"], "mysql": ["m1"], "cli": ["m1"], "exp": ["m1"]}


def layer_dir(layer):
    return os.path.join(ROOT, "coq", layer)


def logical(layer):
    return "VV." + layer.upper()


def layer_subdirs(layer):
    d = layer_dir(layer)
    return sorted(x for x in os.listdir(d) if os.path.isdir(os.path.join(d, x)) and x not in ("Gen",)
                  and not x.startswith("."))


def q_flags(layer, absolute=True):
    """-Q flags for a layer and everything it depends on."""
    flags = []
    seen = []

    def visit(l):
        if l in seen:
            return
        for dep in LAYER_DEPS.get(l, []):
            visit(dep)
        seen.append(l)
    visit(layer)
    for l in seen:
        for sd in layer_subdirs(l):
            flags += ["-Q", os.path.join(layer_dir(l), sd), logical(l)]
    return flags


def grep_forbidden(layer):
    bad = []
    for f in glob.glob(os.path.join(layer_dir(layer), "**", "*.v"), recursive=True):
        if "/Gen/" in f:
            continue
        txt = open(f, errors="replace").read()
        txt = re.sub(r"\(\*.*?\*\)", "", txt, flags=re.S)
        for m in FORBIDDEN.finditer(txt):
            bad.append("%s: %s" % (os.path.relpath(f, ROOT), m.group(0)))
    return bad


def model_targets(layer):
    """.vo targets of the proof-free part of a layer (Base/ Model/ Corr/)."""
    d = layer_dir(layer)
    out = []
    for sd in layer_subdirs(layer):
        if sd in ("Proofs", "Properties"):
            continue
        out += sorted(os.path.relpath(f, d)[:-2] + ".vo" for f in glob.glob(os.path.join(d, sd, "*.v")))
    return out


def dep_proof_targets(layer, dep):
    """Proofs/*.vo of a dependency layer that the sources of `layer` Require by name."""
    words = set()
    for f in glob.glob(os.path.join(layer_dir(layer), "**", "*.v"), recursive=True):
        if "/Gen/" in f:
            continue
        for line in open(f, errors="replace"):
            if "Require" in line:
                words.update(re.findall(r"[A-Za-z_][A-Za-z0-9_']*", line))
    out = []
    for f in sorted(glob.glob(os.path.join(layer_dir(dep), "Proofs", "*.v"))):
        if os.path.basename(f)[:-2] in words:
            out.append("Proofs/" + os.path.basename(f)[:-2] + ".vo")
    return out


# ---------------------------------------------------------------------------------------------------------------------
# Checks may be started concurrently (several `./vf check` processes).  Everything that writes a shared artefact -- a layer's
# .vo files, a cargo workspace, a cached generated run -- runs under an advisory file lock named after the artefact.  The lock
# is re-entrant inside one process; acquisition order is always run-cache -> coq_<layer> -> coq_<dependency layer> (acyclic).
_LOCKS = {}
_LOCKS_GUARD = threading.RLock()


@contextlib.contextmanager
def locked(name):
    path = os.path.join(CACHE, "locks")
    os.makedirs(path, exist_ok=True)
    with _LOCKS_GUARD:
        ent = _LOCKS.get(name)
        if ent and ent[2] == threading.get_ident():
            ent[1] += 1
            reent = True
        else:
            reent = False
    if reent:
        try:
            yield
        finally:
            with _LOCKS_GUARD:
                _LOCKS[name][1] -= 1
        return
    f = open(os.path.join(path, name + ".lock"), "w")
    fcntl.flock(f, fcntl.LOCK_EX)
    with _LOCKS_GUARD:
        _LOCKS[name] = [f, 1, threading.get_ident()]
    try:
        yield
    finally:
        with _LOCKS_GUARD:
            _LOCKS.pop(name, None)
        fcntl.flock(f, fcntl.LOCK_UN)
        f.close()


def serialized(name_fn):
    """decorator: run the function under the lock named name_fn(*args, **kwargs) (or the constant string name_fn)"""
    def deco(fn):
        @functools.wraps(fn)
        def wrapper(*a, **k):
            with locked(name_fn(*a, **k) if callable(name_fn) else name_fn):
                return fn(*a, **k)
        return wrapper
    return deco


@serialized(lambda layer, *a, **k: "coq_" + layer)
def build_layer(layer, jobs=16, timeout=3000, targets=None):
    """Build a layer through coq_makefile (full .vo compilation, never -vos).
    targets=None builds everything; targets="models" builds Base/Model/Corr only; a list builds those .vo
    files (make pulls in exactly what they depend on).  Dependency layers are built models-only, so that a
    proof file under construction elsewhere cannot break or stall this build.  Every coqc runs under a
    12 GB address-space limit and the whole make under a wall-clock timeout."""
    for dep in LAYER_DEPS.get(layer, []):
        rc, out = build_layer(dep, jobs, timeout, targets=model_targets(dep) + dep_proof_targets(layer, dep))
        if rc != 0:
            return rc, out
    d = layer_dir(layer)
    files = []
    for sd in layer_subdirs(layer):
        files += sorted(os.path.relpath(f, d) for f in glob.glob(os.path.join(d, sd, "*.v")))
    lines = []
    for dep in LAYER_DEPS.get(layer, []):
        for sd in layer_subdirs(dep):
            lines.append("-Q %s %s" % (os.path.join(layer_dir(dep), sd), logical(dep)))
    for sd in layer_subdirs(layer):
        lines.append("-Q %s %s" % (sd, logical(layer)))
    lines += files
    proj = "\n".join(lines) + "\n"
    pj = os.path.join(d, "_CoqProject")
    if not os.path.exists(pj) or open(pj).read() != proj:
        open(pj, "w").write(proj)
        sh("coq_makefile -f _CoqProject -o Makefile", cwd=d, check=True)
    elif not os.path.exists(os.path.join(d, "Makefile")):
        sh("coq_makefile -f _CoqProject -o Makefile", cwd=d, check=True)
    if targets == "models":
        tl = model_targets(layer)
    elif targets:
        tl = list(targets)
    else:
        tl = []
    cmd = "ulimit -v 12000000; timeout %d make -j%d %s" % (timeout, jobs, " ".join(tl))
    rc, out, _ = sh(["bash", "-c", cmd], cwd=d, timeout=timeout + 60)
    return rc, out


@serialized(lambda layer, *a, **k: "coq_" + layer)
def compile_property(layer, prop):
    """Re-run coqc on Properties/<prop>.v so this run's Print Assumptions output is fresh.
    Returns dict(ok, obligations, discharged, axioms, closed, output, theorems)."""
    d = layer_dir(layer)
    f = os.path.join(d, "Properties", prop + ".v")
    src = open(f).read()
    pins = re.findall(r"^Check\s+(\w+)\s*:", src, flags=re.M)
    rc, out, _ = sh(["timeout", "900", "coqc", "-noglob"] + q_flags(layer) + [f], cwd=d, timeout=960)
    axioms = set()
    closed = len(re.findall(r"Closed under the global context", out))
    for m in re.finditer(r"^Axioms:\n((?:.+\n?)+?)(?=^\S|\Z)", out, flags=re.M):
        for line in m.group(1).splitlines():
            mm = re.match(r"^\s*([\w.']+)\s*:", line)
            if mm:
                axioms.add(mm.group(1))
    # simpler, robust: any line "name : type" directly under "Axioms:"
    if "Axioms:" in out:
        blk = out.split("Axioms:")[1:]
        for b in blk:
            for line in b.splitlines()[1:]:
                if not line.startswith(" ") and not re.match(r"^[\w.']+\s*:", line):
                    break
                mm = re.match(r"^([\w.']+)\s*:", line.strip())
                if mm:
                    axioms.add(mm.group(1))
    return {"ok": rc == 0, "obligations": len(pins), "discharged": len(pins) if rc == 0 else 0,
            "axioms": sorted(axioms), "closed": closed, "output": out, "theorems": pins}


# ---------------------------------------------------------------------------------- harness
@serialized(lambda pkg, timeout=1800, ws="harness": "cargo_" + ws)
def build_harness(pkg, timeout=1800, ws="harness"):
    hd = os.path.join(ROOT, ws)
    lock = os.path.join(hd, "Cargo.lock")
    if not os.path.exists(lock):
        shutil.copy(os.path.join(REPO, "Cargo.lock"), lock)
    rc, out, dt = sh(["cargo", "build", "--offline", "-p", pkg], cwd=hd, timeout=timeout)
    return rc, out, os.path.join(TARGET, "debug", pkg)


def run_shards(layer, case_dir, pattern="cases_*.v", jobs=16, timeout=900):
    """coqc every shard; each prints `= [...]` for `bad`. Returns (all_bad, per_shard_outputs, errors)."""
    shards = sorted(glob.glob(os.path.join(case_dir, pattern)))
    flags = q_flags(layer)

    def one(f):
        rc, out, dt = sh(["timeout", str(timeout), "coqc", "-noglob"] + flags + ["-Q", case_dir, "Cases", f], cwd=case_dir, timeout=timeout + 30)
        return f, rc, out, dt
    with ThreadPoolExecutor(max_workers=jobs) as ex:
        res = list(ex.map(one, shards))
    return res


def parse_eval_outputs(out):
    """Split coqc output into the successive `= term : type` blocks (as strings)."""
    blocks = []
    cur = None
    for line in out.splitlines():
        if line.lstrip().startswith("= "):
            if cur is not None:
                blocks.append(cur)
            cur = line.lstrip()[2:]
        elif cur is not None:
            cur += " " + line.strip()
    if cur is not None:
        blocks.append(cur)
    res = []
    for b in blocks:
        # drop the trailing ": type"
        i = b.rfind(" : ")
        res.append(b[:i].strip() if i >= 0 else b.strip())
    return res


def parse_nat_pairs(term):
    """'[(3, [1; 4]); (7, [2])]' -> [(3,[1,4]),(7,[2])]"""
    term = term.replace("%nat", "")
    out = []
    for m in re.finditer(r"\((\d+),\s*\[([^\]]*)\]\)", term):
        out.append((int(m.group(1)), [int(x) for x in re.findall(r"\d+", m.group(2))]))
    return out


def parse_nat_list(term):
    return [int(x) for x in re.findall(r"\d+", term.replace("%nat", ""))]


def parse_bool_list(term):
    return [x == "true" for x in re.findall(r"\b(true|false)\b", term)]


# ---------------------------------------------------------------------------------- verdicts
def load_known():
    p = os.path.join(ROOT, "known_findings.json")
    if not os.path.exists(p):
        return []
    return json.load(open(p)).get("findings", [])


def write_replay(prop, kind, payload):
    d = os.path.join(ROOT, "replays", prop)
    os.makedirs(d, exist_ok=True)
    body = {"property": prop, "kind": kind}
    body.update(payload)
    txt = json.dumps(body, indent=1, sort_keys=True, default=str)
    h = hashlib.sha1(txt.encode()).hexdigest()[:12]
    path = os.path.join(d, "%s_%s.json" % (re.sub(r"[^A-Za-z0-9]+", "-", kind)[:40], h))
    open(path, "w").write(txt)
    return os.path.relpath(path, ROOT)


def write_evidence(prop, tier, seed, coverage, assumptions, wall, violations, level="proof"):
    os.makedirs(os.path.join(ROOT, "evidence"), exist_ok=True)
    ev = {"property_id": prop, "tier": tier, "seed": int(seed), "level": level, "coverage": coverage,
          "assumptions": assumptions, "wall_s": round(wall, 2), "violations": int(violations)}
    open(os.path.join(ROOT, "evidence", prop + ".json"), "w").write(json.dumps(ev, indent=1, default=str))
    return ev


EXTRA_PARTS = {"C12": [("clirun", "c12_part")], "C18": [("crosspart", "c18_from_c20")], "C09": [("crosspart", "c09_loader")], "C16": [("clirun", "c16_part")]}
PLANNER_DEP_PROPS = {"C02", "C03", "C04", "C05", "C09", "C12", "C13"}


class Check:
    """Bookkeeping for one property check run."""

    def __init__(self, prop, tier, seed):
        self.prop, self.tier, self.seed = prop, tier, int(seed)
        self.t0 = time.time()
        self.violations = []      # (replay_path, suffix)
        self.known = []           # lines
        self.notes = []
        self.cov = {"obligations": 0, "discharged": 0, "checker_cmd": "", "trusted_base": [],
                    "evaluations": 0, "distinct_nontrivial": 0, "rule": "", "samples": [],
                    "correspondences": {}, "theorem_coverage": {}, "distribution": {},
                    "known_findings_confirmed": [], "traces_validated_against_impl": 0}
        self.assumptions = []

    def violation(self, replay, no_input=False):
        self.violations.append((replay, no_input))

    def known_finding(self, fid, what):
        line = "KNOWN-FINDING: property=%s %s: %s" % (self.prop, fid, what)
        if line not in self.known:
            self.known.append(line)
            self.cov["known_findings_confirmed"].append(fid)

    def finish(self):
        # properties whose statement quantifies over what the PLANNER emits (action order, evolving schema) also rest on
        # the planner model's correspondence (K-diff, K-apply of layer m1); the M1 run is shared and cached per tree
        if self.prop in PLANNER_DEP_PROPS and not getattr(self, "_planner_dep_done", False):
            self._planner_dep_done = True
            try:
                import m1run
                m1run.planner_dependency(self)
            except Exception as e:  # the dependency must never hide the layer's own verdict
                self.notes.append("NOTE planner dependency not evaluated: %s" % e)
        # parts of a property that live in another layer's runner (e.g. C12's "revision then reload" clause on the real binary)
        for mod, fn in EXTRA_PARTS.get(self.prop, []):
            if (mod, fn) in getattr(self, "_extra_done", set()):
                continue
            self._extra_done = getattr(self, "_extra_done", set()) | {(mod, fn)}
            try:
                import importlib
                r = getattr(importlib.import_module(mod), fn)(self.tier, self.seed)
                self.cov.setdefault("parts", {})["%s.%s" % (mod, fn)] = {"ok": r.get("ok"), "details": r.get("details")}
                if not r.get("ok", False):
                    fi = r.get("failing_input")
                    self.violation(write_replay(self.prop, "oracle:%s" % fn if fi else "correspondence:%s" % fn,
                                                {"input": fi, "details": r.get("details")}), not fi)
            except Exception as e:
                self.notes.append("NOTE part %s.%s not evaluated: %s" % (mod, fn, e))
        wall = time.time() - self.t0
        for l in self.notes:
            print(l)
        for l in self.known:
            print(l)
        write_evidence(self.prop, self.tier, self.seed, self.cov, self.assumptions, wall, len(self.violations))
        seen = set()
        for rp, no_input in self.violations:
            if rp in seen:
                continue
            seen.add(rp)
            print("VIOLATION property=%s replay=%s%s" % (self.prop, rp, " no-failing-input-found" if no_input else ""))
        print("%s %s: %s in %.1fs (obligations %d/%d, evaluations %d)" % (
            self.prop, self.tier, "FAIL" if self.violations else "ok", wall,
            self.cov["discharged"], self.cov["obligations"], self.cov["evaluations"]))
        return 1 if self.violations else 0


def proof_stage(chk, layer, prop):
    """Build the layer, re-check Properties/<prop>.v, enforce the no-axiom / no-admit rules.
    On failure registers a no-failing-input-found violation naming the theorem file."""
    bad = grep_forbidden(layer)
    for dep in LAYER_DEPS.get(layer, []):
        bad += grep_forbidden(dep)
    rc, out = build_layer(layer, targets=model_targets(layer) + ["Properties/%s.vo" % prop])
    ok = True
    if bad:
        rp = write_replay(prop, "theorem:forbidden-construct", {"found": bad})
        chk.violation(rp, True)
        ok = False
    if rc != 0:
        m = re.findall(r'File "([^"]+)", line (\d+)', out)
        rp = write_replay(prop, "theorem:layer-build", {"layer": layer, "first_error": m[:1], "log_tail": out[-3000:]})
        chk.violation(rp, True)
        return False
    r = compile_property(layer, prop)
    chk.cov["obligations"] = r["obligations"]
    chk.cov["discharged"] = r["discharged"]
    chk.cov["checker_cmd"] = "make -C coq/%s (coq_makefile, full .vo) && coqc coq/%s/Properties/%s.v" % (layer, layer, prop)
    chk.cov["theorems"] = r["theorems"]
    chk.cov["axioms_reported"] = r["axioms"]
    chk.cov["closed_under_global_context"] = r["closed"]
    unexpected = [a for a in r["axioms"] if a.split(".")[-1] not in {x.split(".")[-1] for x in AXIOM_ALLOW}]
    if not r["ok"]:
        m = re.findall(r'File "([^"]+)", line (\d+)', r["output"])
        rp = write_replay(prop, "theorem:%s" % prop, {"file": "coq/%s/Properties/%s.v" % (layer, prop),
                                                      "first_error": m[:1], "log_tail": r["output"][-3000:]})
        chk.violation(rp, True)
        ok = False
    if unexpected:
        rp = write_replay(prop, "theorem:axioms", {"unexpected_axioms": unexpected})
        chk.violation(rp, True)
        ok = False
    if ok and chk.tier == "thorough":
        ok = coqchk_property(chk, layer, prop) and ok
        chk.cov["checker_cmd"] += " && coqchk -silent -o VV.%s.%s" % (layer.upper(), prop)
    return ok


@serialized(lambda chk, layer, *a, **k: "coq_" + layer)
def coqchk_property(chk, layer, prop, timeout=1500):
    """Thorough tier: re-check the compiled property module and everything it depends on with the independent
    checker and compare the axiom list it prints with the allow-list."""
    rc, out, dt = sh(["timeout", str(timeout), "coqchk", "-silent", "-o"] + q_flags(layer) + ["%s.%s" % (logical(layer), prop)],
                     cwd=layer_dir(layer), timeout=timeout + 60)
    m = re.search(r"\* Axioms:(.*?)\n\s*\n", out, flags=re.S)
    axioms_txt = (m.group(1).strip() if m else "?")
    names = [] if axioms_txt == "<none>" else re.findall(r"^\s*([\w.']+)", axioms_txt, flags=re.M)
    unexpected = [a for a in names if a.split(".")[-1] not in {x.split(".")[-1] for x in AXIOM_ALLOW}]
    chk.cov["coqchk"] = {"exit": rc, "axioms": names if names else "<none>", "seconds": round(dt, 1),
                         "type_in_type": "<none>" if "type-in-type: <none>" in out else "?",
                         "unsafe_fixpoints": "<none>" if "unsafe (co)fixpoints: <none>" in out else "?",
                         "positivity_assumed": "<none>" if "positivity is assumed: <none>" in out else "?"}
    if rc != 0 or unexpected or "?" in (chk.cov["coqchk"]["type_in_type"], chk.cov["coqchk"]["unsafe_fixpoints"], chk.cov["coqchk"]["positivity_assumed"]):
        rp = write_replay(prop, "theorem:coqchk", {"exit": rc, "unexpected_axioms": unexpected, "log_tail": out[-2000:]})
        chk.violation(rp, True)
        return False
    return True


TRUSTED_COMMON = [
    "Coq 8.16.1 kernel (coqc) and its VM (vm_compute is used in proofs by computation and in the correspondence evaluation); native_compute is not used",
    "no axioms declared by this development; Print Assumptions output of every pinned theorem is parsed on every run",
    "no extraction: every model evaluation happens inside Coq",
    "hand-written tie: Rust harness (generators, Gallina printers), Python driver (lib/vflib.py, checks/*.py)",
]
